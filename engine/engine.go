package main

// The SSA interpreter proper: frames, instructions, calls, defers, panics.

import (
	"fmt"
	"go/token"
	"go/types"
	"os"
	"slices"
	"strings"
	"time"

	"golang.org/x/tools/go/ssa"
)

// targetPanic is a Go-level panic in the interpreted program.
type targetPanic struct {
	v   value
	rt  bool   // raised by the run-time (bounds, nil deref, ...)
	msg string // description for reports
	pos string
}

// engineError aborts the current path as inconclusive (unsupported feature,
// budget exceeded, ...).
type engineError struct{ msg string }

var debugStack = os.Getenv("SYMGO_STACK") != ""

// pathEnd silently ends the current path (infeasible assumption).
type pathEnd struct{ reason string }

// Poison is the value of a package-level initialiser that could not be run.
type Poison struct{ why string }

type deferred struct {
	fn    value
	args  []value
	instr *ssa.Defer
	tail  *deferred
}

type frame struct {
	e                *Engine
	caller           *frame
	fn               *ssa.Function
	block, prevBlock *ssa.BasicBlock
	env              map[ssa.Value]value
	locals           []value
	defers           *deferred
	result           value
	panicking        bool
	panic            any
	phitemps         []value
	visits           []int32 // per block, allocated on first back edge
	isInit           bool
	skipPhis         bool
	depth            int
}

type undoRec struct {
	p   *value
	old value
	f   func()
	// benign: a balanced engine-state change (lock/unlock) that does not
	// prevent merging the region it occurs in
	benign bool
}

func (fr *frame) get(key ssa.Value) value {
	switch key := key.(type) {
	case nil:
		return nil
	case *ssa.Function:
		return key
	case *ssa.Builtin:
		return key
	case *ssa.Const:
		return fr.e.constValue(key)
	case *ssa.Global:
		return fr.e.globalAddr(key)
	}
	if r, ok := fr.env[key]; ok {
		return r
	}
	panic(engineError{fmt.Sprintf("get: no value for %T %v in %v", key, key.Name(), fr.fn)})
}

func (e *Engine) pos(p token.Pos) string {
	if p == token.NoPos {
		return "?"
	}
	ps := e.prog.Fset.Position(p)
	return fmt.Sprintf("%s:%d", ps.Filename, ps.Line)
}

func (fr *frame) posOf(instr ssa.Instruction) string {
	p := instr.Pos()
	if p == token.NoPos {
		// find a nearby position
		for _, in := range instr.Block().Instrs {
			if in.Pos() != token.NoPos {
				p = in.Pos()
				break
			}
		}
	}
	return fr.fn.String() + "@" + fr.e.pos(p)
}

// ---------- memory ----------

func (e *Engine) rawStore(p *value, v value) {
	if e.initMode == 0 {
		e.undo = append(e.undo, undoRec{p: p, old: *p})
	}
	*p = v
}

// store writes v (of type t) through p, element-wise for aggregates so that
// interior pointers stay valid.
func (e *Engine) store(t types.Type, p *value, v value) {
	switch v := v.(type) {
	case Struct:
		dst, ok := (*p).(Struct)
		if !ok {
			e.rawStore(p, copyVal(v))
			return
		}
		st := t.Underlying().(*types.Struct)
		for i := range v {
			e.store(st.Field(i).Type(), &dst[i], v[i])
		}
	case Array:
		dst, ok := (*p).(Array)
		if !ok {
			e.rawStore(p, copyVal(v))
			return
		}
		et := t.Underlying().(*types.Array).Elem()
		switch et.Underlying().(type) {
		case *types.Struct, *types.Array:
			for i := range v {
				e.store(et, &dst[i], v[i])
			}
		default:
			for i := range v {
				// skip unchanged scalars; anything else (strings, slices,
				// interfaces are not comparable with ==) is stored
				if ta, ok := dst[i].(*Term); ok {
					if tb, ok := v[i].(*Term); ok && ta == tb {
						continue
					}
				}
				e.rawStore(&dst[i], v[i])
			}
		}
	default:
		e.rawStore(p, v)
	}
}

func (e *Engine) nilDeref(fr *frame, instr ssa.Instruction) {
	panic(targetPanic{v: e.rtErr("invalid memory address or nil pointer dereference"), rt: true,
		msg: "nil pointer dereference", pos: fr.posOf(instr)})
}

func (e *Engine) rtErr(msg string) value {
	return Iface{t: e.rtErrType, v: Str{s: "runtime error: " + msg}}
}

func (e *Engine) loadPtr(fr *frame, instr ssa.Instruction, pv value) value {
	switch p := pv.(type) {
	case Ptr:
		if p.p == nil {
			e.nilDeref(fr, instr)
		}
		return copyVal(*p.p)
	case SymPtr:
		return e.symLoad(p)
	}
	panic(engineError{fmt.Sprintf("load through %T at %s", pv, fr.posOf(instr))})
}

func (e *Engine) symLoad(p SymPtr) value {
	c := e.ctx
	n := len(p.arr)
	first, ok := p.arr[n-1].(*Term)
	if !ok {
		panic(engineError{"symbolic-index load of non-scalar element"})
	}
	r := first
	for i := n - 2; i >= 0; i-- {
		r = c.Ite(c.Eq(p.idx, c.Const(64, uint64(i))), p.arr[i].(*Term), r)
	}
	return r
}

func (e *Engine) symStore(p SymPtr, v value) {
	c := e.ctx
	nv, ok := v.(*Term)
	if !ok {
		panic(engineError{"symbolic-index store of non-scalar element"})
	}
	for i := range p.arr {
		old := p.arr[i].(*Term)
		e.rawStore(&p.arr[i], c.Ite(c.Eq(p.idx, c.Const(64, uint64(i))), nv, old))
	}
}

// ---------- globals and package initialisation ----------

func (e *Engine) globalAddr(g *ssa.Global) value {
	if p, ok := e.globals[g]; ok {
		return Ptr{p: p}
	}
	if g.Pkg != nil {
		e.ensureInit(g.Pkg)
		if p, ok := e.globals[g]; ok {
			return Ptr{p: p}
		}
	}
	cell := new(value)
	*cell = e.zero(mustDeref(g.Type()))
	e.globals[g] = cell
	return Ptr{p: cell}
}

func mustDeref(t types.Type) types.Type {
	if p, ok := t.Underlying().(*types.Pointer); ok {
		return p.Elem()
	}
	panic(fmt.Sprintf("mustDeref: not a pointer: %v", t))
}

func (e *Engine) ensureInit(pkg *ssa.Package) {
	if e.pkgInit[pkg] != 0 {
		return
	}
	e.pkgInit[pkg] = 1
	// allocate all globals first
	for _, m := range pkg.Members {
		if g, ok := m.(*ssa.Global); ok {
			if _, ok := e.globals[g]; !ok {
				cell := new(value)
				*cell = e.zero(mustDeref(g.Type()))
				e.globals[g] = cell
			}
		}
	}
	init := pkg.Func("init")
	if init == nil || init.Blocks == nil {
		e.pkgInit[pkg] = 2
		return
	}
	if e.cfg.SkipInit[pkg.Pkg.Path()] {
		e.pkgInit[pkg] = 2
		return
	}
	e.initMode++
	savedSteps := e.steps
	func() {
		defer func() {
			e.initMode--
			e.steps = savedSteps
			if r := recover(); r != nil {
				switch r.(type) {
				case engineError, targetPanic:
					e.noteInitProblem(pkg, fmt.Sprint(r))
				default:
					panic(r)
				}
			}
		}()
		e.callSSA(nil, token.NoPos, init, nil, nil)
	}()
	e.pkgInit[pkg] = 2
	// Packages are initialised lazily (on first use of one of their
	// globals); registrations made by init functions of *other* packages
	// would be missed. The crypto hash registry is the one go-git relies on.
	if pkg.Pkg.Path() == "crypto" {
		for _, dep := range []string{"crypto/sha1", "crypto/sha256", "crypto/sha512", "crypto/md5", "github.com/pjbgf/sha1cd"} {
			if p := e.prog.ImportedPackage(dep); p != nil {
				e.ensureInit(p)
			}
		}
	}
}

func (e *Engine) noteInitProblem(pkg *ssa.Package, msg string) {
	if e.initProblems == nil {
		e.initProblems = map[string]string{}
	}
	k := pkg.Pkg.Path()
	if _, ok := e.initProblems[k]; !ok {
		e.initProblems[k] = msg
	}
}

// ---------- constants ----------

func (e *Engine) constValue(c *ssa.Const) value {
	if v, ok := e.consts[c]; ok {
		return v
	}
	v := e.constValue1(c)
	e.consts[c] = v
	return v
}

func (e *Engine) constValue1(c *ssa.Const) value {
	if c.Value == nil {
		return e.zero(c.Type())
	}
	t := c.Type().Underlying()
	if b, ok := t.(*types.Basic); ok {
		if w, signed, ok := intWidth(b); ok {
			if w == 0 {
				return e.ctx.Bool(constantBool(c))
			}
			if signed {
				return e.ctx.Const(w, uint64(c.Int64()))
			}
			return e.ctx.Const(w, c.Uint64())
		}
		switch {
		case b.Info()&types.IsString != 0:
			return Str{s: constantString(c)}
		case b.Info()&types.IsFloat != 0:
			return c.Float64()
		case b.Info()&types.IsComplex != 0:
			return c.Complex128()
		case b.Kind() == types.UnsafePointer:
			return Ptr{}
		}
	}
	if _, ok := t.(*types.Interface); ok {
		// a constant converted to interface does not occur; nil handled above
		return Iface{}
	}
	panic(engineError{fmt.Sprintf("constValue: %v of type %v", c, c.Type())})
}

// ---------- instruction dispatch ----------

type continuation int

const (
	kNext continuation = iota
	kReturn
	kJump
)

func (e *Engine) visitInstr(fr *frame, instr ssa.Instruction) continuation {
	switch instr := instr.(type) {
	case *ssa.DebugRef:

	case *ssa.UnOp:
		fr.env[instr] = e.unop(fr, instr, fr.get(instr.X))

	case *ssa.BinOp:
		fr.env[instr] = e.binop(fr, instr, instr.Op, instr.X.Type(), instr.Y.Type(), fr.get(instr.X), fr.get(instr.Y))

	case *ssa.Call:
		fn, args := e.prepareCall(fr, instr, &instr.Call)
		fr.env[instr] = e.call(fr, instr.Pos(), fn, args)

	case *ssa.ChangeInterface:
		fr.env[instr] = fr.get(instr.X)

	case *ssa.ChangeType:
		fr.env[instr] = fr.get(instr.X)

	case *ssa.Convert:
		fr.env[instr] = e.conv(fr, instr, instr.Type(), instr.X.Type(), fr.get(instr.X))

	case *ssa.MultiConvert:
		fr.env[instr] = e.conv(fr, instr, instr.Type(), instr.X.Type(), fr.get(instr.X))

	case *ssa.SliceToArrayPointer:
		x := fr.get(instr.X).([]value)
		n := int(mustDeref(instr.Type()).Underlying().(*types.Array).Len())
		if len(x) < n {
			panic(targetPanic{v: e.rtErr("cannot convert slice to array pointer"), rt: true, msg: "slice to array pointer: too short", pos: fr.posOf(instr)})
		}
		if x == nil {
			fr.env[instr] = Ptr{}
		} else {
			cell := new(value)
			*cell = Array(x[:n:n])
			fr.env[instr] = Ptr{p: cell}
		}

	case *ssa.MakeInterface:
		fr.env[instr] = Iface{t: instr.X.Type(), v: fr.get(instr.X)}

	case *ssa.Extract:
		fr.env[instr] = fr.get(instr.Tuple).(Tuple)[instr.Index]

	case *ssa.Slice:
		fr.env[instr] = e.sliceOp(fr, instr, fr.get(instr.X), fr.get(instr.Low), fr.get(instr.High), fr.get(instr.Max))

	case *ssa.Return:
		switch len(instr.Results) {
		case 0:
		case 1:
			fr.result = fr.get(instr.Results[0])
		default:
			res := make(Tuple, len(instr.Results))
			for i, r := range instr.Results {
				res[i] = fr.get(r)
			}
			fr.result = res
		}
		fr.block = nil
		return kReturn

	case *ssa.RunDefers:
		fr.runDefers()

	case *ssa.Panic:
		v := fr.get(instr.X)
		panic(targetPanic{v: v, msg: "panic(" + e.describe(v) + ")", pos: fr.posOf(instr)})

	case *ssa.Send:
		e.chanSend(fr, instr, fr.get(instr.Chan).(*Chan), fr.get(instr.X))

	case *ssa.Store:
		addr := fr.get(instr.Addr)
		val := fr.get(instr.Val)
		switch p := addr.(type) {
		case Ptr:
			if p.p == nil {
				e.nilDeref(fr, instr)
			}
			e.store(mustDeref(instr.Addr.Type()), p.p, val)
		case SymPtr:
			e.symStore(p, val)
		default:
			panic(engineError{fmt.Sprintf("store through %T at %s", addr, fr.posOf(instr))})
		}

	case *ssa.If:
		cond := fr.get(instr.Cond).(*Term)
		if !cond.IsConst() && e.cfg.RegionMerge && e.initMode == 0 && e.tryMergeRegion(fr, instr, cond) {
			return kJump
		}
		succ := 1
		if e.branch(cond, fr, instr) {
			succ = 0
		}
		fr.jump(fr.block.Succs[succ])
		return kJump

	case *ssa.Jump:
		fr.jump(fr.block.Succs[0])
		return kJump

	case *ssa.Defer:
		fn, args := e.prepareCall(fr, instr, &instr.Call)
		defers := &fr.defers
		if into := fr.get(instr.DeferStack); into != nil {
			defers = into.(**deferred)
		}
		*defers = &deferred{fn: fn, args: args, instr: instr, tail: *defers}

	case *ssa.Go:
		fn, args := e.prepareCall(fr, instr, &instr.Call)
		e.goStmt(fr, instr, fn, args)

	case *ssa.MakeChan:
		n := e.concInt(fr.get(instr.Size).(*Term), "chan size")
		fr.env[instr] = &Chan{cap: int(n)}

	case *ssa.Alloc:
		var addr *value
		if instr.Heap {
			addr = new(value)
			fr.env[instr] = Ptr{p: addr}
		} else {
			addr = fr.env[instr].(Ptr).p
		}
		*addr = e.zero(mustDeref(instr.Type()))

	case *ssa.MakeSlice:
		ln := fr.get(instr.Len).(*Term)
		cp := fr.get(instr.Cap).(*Term)
		n := e.allocSize(fr, instr, ln)
		cn := n
		if cp != ln {
			cn = e.allocSize(fr, instr, cp)
			if cn < n {
				panic(targetPanic{v: e.rtErr("makeslice: cap out of range"), rt: true, msg: "makeslice: cap out of range", pos: fr.posOf(instr)})
			}
		}
		tElt := instr.Type().Underlying().(*types.Slice).Elem()
		fr.env[instr] = e.makeSlice(tElt, n, cn)

	case *ssa.MakeMap:
		fr.env[instr] = newMap(instr.Type().Underlying().(*types.Map).Key())

	case *ssa.Range:
		fr.env[instr] = e.rangeIter(fr, instr, fr.get(instr.X))

	case *ssa.Next:
		fr.env[instr] = fr.get(instr.Iter).(iter).next(e, fr)

	case *ssa.FieldAddr:
		x := fr.get(instr.X)
		p, ok := x.(Ptr)
		if !ok {
			panic(engineError{fmt.Sprintf("FieldAddr on %T at %s", x, fr.posOf(instr))})
		}
		if p.p == nil {
			e.nilDeref(fr, instr)
		}
		st, ok := (*p.p).(Struct)
		if !ok {
			panic(engineError{fmt.Sprintf("FieldAddr: cell holds %T at %s", *p.p, fr.posOf(instr))})
		}
		fr.env[instr] = Ptr{p: &st[instr.Field]}

	case *ssa.Field:
		fr.env[instr] = fr.get(instr.X).(Struct)[instr.Field]

	case *ssa.IndexAddr:
		fr.env[instr] = e.indexAddr(fr, instr, fr.get(instr.X), fr.get(instr.Index).(*Term))

	case *ssa.Index:
		fr.env[instr] = e.index(fr, instr, fr.get(instr.X), fr.get(instr.Index).(*Term))

	case *ssa.Lookup:
		fr.env[instr] = e.lookup(fr, instr, fr.get(instr.X), fr.get(instr.Index))

	case *ssa.MapUpdate:
		m := fr.get(instr.Map).(*Map)
		if m == nil {
			panic(targetPanic{v: Iface{t: e.rtErrType, v: Str{s: "assignment to entry in nil map"}}, rt: true, msg: "assignment to entry in nil map", pos: fr.posOf(instr)})
		}
		e.mapInsert(m, fr.get(instr.Key), fr.get(instr.Value))

	case *ssa.TypeAssert:
		fr.env[instr] = e.typeAssert(fr, instr, fr.get(instr.X).(Iface))

	case *ssa.MakeClosure:
		bindings := make([]value, len(instr.Bindings))
		for i, b := range instr.Bindings {
			bindings[i] = fr.get(b)
		}
		fr.env[instr] = &Closure{instr.Fn.(*ssa.Function), bindings}

	case *ssa.Phi:
		panic("unreachable: phi")

	case *ssa.Select:
		fr.env[instr] = e.selectOp(fr, instr)

	default:
		panic(engineError{fmt.Sprintf("unexpected instruction: %T", instr)})
	}
	return kNext
}

func (fr *frame) jump(to *ssa.BasicBlock) {
	if to.Index <= fr.block.Index {
		// back edge (approximately): count visits of the target
		if fr.visits == nil {
			fr.visits = make([]int32, len(fr.fn.Blocks))
		}
		fr.visits[to.Index]++
		if int(fr.visits[to.Index]) > fr.e.cfg.Unwind && fr.e.initMode == 0 {
			panic(engineError{fmt.Sprintf("unwind bound %d exceeded in %s block %d", fr.e.cfg.Unwind, fr.fn, to.Index)})
		}
	}
	fr.prevBlock, fr.block = fr.block, to
}

func (e *Engine) describe(v value) string {
	switch v := v.(type) {
	case Iface:
		if v.t == nil {
			return "nil"
		}
		return v.t.String() + ":" + e.describe(v.v)
	case Str:
		return v.String()
	case *Term:
		return v.String()
	case Ptr:
		if v.p == nil {
			return "nil-ptr"
		}
		if s, ok := (*v.p).(Struct); ok && len(s) > 0 {
			return "&{" + e.describe(s[0]) + "…}"
		}
		return "ptr"
	}
	return fmt.Sprintf("%T", v)
}

// ---------- calls ----------

func (e *Engine) prepareCall(fr *frame, instr ssa.Instruction, call *ssa.CallCommon) (fn value, args []value) {
	v := fr.get(call.Value)
	if call.Method == nil {
		fn = v
	} else {
		recv, ok := v.(Iface)
		if !ok {
			panic(engineError{fmt.Sprintf("invoke on %T at %s", v, fr.posOf(instr))})
		}
		if recv.t == nil {
			panic(targetPanic{v: e.rtErr("invalid memory address or nil pointer dereference"), rt: true,
				msg: "method call on nil interface (" + call.Method.Name() + ")", pos: fr.posOf(instr)})
		}
		f := e.lookupMethod(recv.t, call.Method)
		if f == nil {
			panic(engineError{fmt.Sprintf("method set for dynamic type %v does not contain %s", recv.t, call.Method)})
		}
		fn = f
		args = append(args, recv.v)
	}
	for _, arg := range call.Args {
		args = append(args, fr.get(arg))
	}
	return
}

type methKey struct {
	t types.Type
	m *types.Func
}

func (e *Engine) lookupMethod(t types.Type, meth *types.Func) *ssa.Function {
	k := methKey{t, meth}
	if f, ok := e.methCache[k]; ok {
		return f
	}
	e.shared.progMu.Lock()
	f := e.prog.LookupMethod(t, meth.Pkg(), meth.Name())
	e.shared.progMu.Unlock()
	e.methCache[k] = f
	return f
}

func (e *Engine) call(caller *frame, callpos token.Pos, fn value, args []value) value {
	switch fn := fn.(type) {
	case *ssa.Function:
		if fn == nil {
			panic(targetPanic{v: e.rtErr("invalid memory address or nil pointer dereference"), rt: true, msg: "call of nil func", pos: e.pos(callpos)})
		}
		return e.callSSA(caller, callpos, fn, args, nil)
	case *Closure:
		if fn == nil {
			panic(targetPanic{v: e.rtErr("invalid memory address or nil pointer dereference"), rt: true, msg: "call of nil func", pos: e.pos(callpos)})
		}
		return e.callSSA(caller, callpos, fn.Fn, args, fn.Env)
	case *ssa.Builtin:
		return e.callBuiltin(caller, callpos, fn, args)
	case *nativeFunc:
		return fn.f(e, caller, args)
	}
	panic(engineError{fmt.Sprintf("cannot call %T", fn)})
}

// nativeFunc is a function value implemented by the engine.
type nativeFunc struct {
	name string
	f    func(e *Engine, caller *frame, args []value) value
}

func (e *Engine) callSSA(caller *frame, callpos token.Pos, fn *ssa.Function, args []value, env []value) value {
	// Whether a merge is attempted must be a function of the path state only
	// (never of engine history), or re-execution of a decision prefix on
	// another worker would diverge.
	if e.cfg.AutoMerge && e.initMode == 0 && len(fn.Blocks) > 1 && e.autoMergeable(fn) {
		if _, isIntr := intrinsics[fn.String()]; !isIntr {
			r, ok := e.runMerged(func() value { return e.callSSARaw(caller, callpos, fn, args, env) })
			if ok {
				return r
			}
		}
	}
	return e.callSSARaw(caller, callpos, fn, args, env)
}

// callSSABody runs fn's own SSA body (used by intrinsics that only handle
// special cases and otherwise defer to the real code).
func (e *Engine) callSSABody(caller *frame, fn *ssa.Function, args []value) value {
	return e.callSSABody2(caller, token.NoPos, fn, args, nil)
}

func (e *Engine) callSSARaw(caller *frame, callpos token.Pos, fn *ssa.Function, args []value, env []value) value {
	intr, ok := e.intrCache[fn]
	if !ok {
		intr = e.findIntrinsic(fn)
		e.intrCache[fn] = intr
	}
	if intr != nil {
		e.noteIntrinsic(fn)
		return intr(e, caller, fn, args)
	}
	return e.callSSABody2(caller, callpos, fn, args, env)
}

func (e *Engine) callSSABody2(caller *frame, callpos token.Pos, fn *ssa.Function, args []value, env []value) value {
	if fn.Blocks == nil {
		// package initialisers of other packages are run lazily
		panic(engineError{"no code for function: " + fn.String()})
	}
	if fn.Synthetic == "package initializer" && caller != nil {
		// init() of an imported package: lazily initialised on first use
		return nil
	}
	depth := 0
	if caller != nil {
		depth = caller.depth + 1
	}
	if depth > e.cfg.MaxDepth {
		panic(engineError{"call depth exceeded at " + fn.String()})
	}
	e.noteFunction(fn)
	fr := &frame{e: e, caller: caller, fn: fn, depth: depth}
	fr.isInit = fn.Synthetic == "package initializer"
	fr.env = make(map[ssa.Value]value, 16)
	fr.block = fn.Blocks[0]
	if len(fn.Locals) > 0 {
		fr.locals = make([]value, len(fn.Locals))
		for i, l := range fn.Locals {
			fr.locals[i] = e.zero(mustDeref(l.Type()))
			fr.env[l] = Ptr{p: &fr.locals[i]}
		}
	}
	if len(args) != len(fn.Params) {
		panic(engineError{fmt.Sprintf("call %s: %d args for %d params", fn, len(args), len(fn.Params))})
	}
	for i, p := range fn.Params {
		fr.env[p] = args[i]
	}
	for i, fv := range fn.FreeVars {
		fr.env[fv] = env[i]
	}
	for fr.block != nil {
		e.runFrame(fr)
	}
	return fr.result
}

func (e *Engine) runFrame(fr *frame) {
	defer func() {
		if fr.block == nil {
			return // normal return
		}
		r := recover()
		tp, ok := r.(targetPanic)
		if !ok {
			if ee, isEE := r.(engineError); isEE && debugStack && strings.Count(ee.msg, " <- ") < 40 {
				ee.msg += " <- " + fr.fn.String()
				panic(ee)
			}
			panic(r) // engine-level: propagate
		}
		fr.panicking = true
		fr.panic = tp
		fr.runDefers()
		fr.block = fr.fn.Recover
		if fr.block == nil {
			// recovered, no named results: return zero value
			fr.result = e.zero(fr.fn.Signature.Results())
			if fr.fn.Signature.Results().Len() == 0 {
				fr.result = nil
			}
		}
	}()

	for {
		nonPhis := e.executePhis(fr)
		for _, instr := range nonPhis {
			e.steps++
			if e.steps > e.cfg.MaxSteps && e.initMode == 0 {
				panic(engineError{"step budget exceeded"})
			}
			if e.steps&0x3ff == 0 && !e.cfg.Deadline.IsZero() && time.Now().After(e.cfg.Deadline) {
				panic(engineError{"time budget exceeded"})
			}
			if e.cfg.Trace {
				e.traceInstr(fr, instr)
			}
			var k continuation
			if fr.isInit {
				k = e.visitInitInstr(fr, instr)
			} else {
				k = e.visitInstr(fr, instr)
			}
			if k == kReturn {
				return
			}
			if k == kJump {
				break
			}
		}
	}
}

// visitInitInstr runs one instruction of a package initialiser tolerantly:
// a call that the engine cannot execute poisons its result instead of
// aborting the path.
func (e *Engine) visitInitInstr(fr *frame, instr ssa.Instruction) (k continuation) {
	defer func() {
		if r := recover(); r != nil {
			switch r := r.(type) {
			case engineError:
				e.noteInitProblem(fr.fn.Pkg, r.msg)
			case targetPanic:
				e.noteInitProblem(fr.fn.Pkg, "panic: "+r.msg)
			default:
				if isRuntimeErr(r) {
					e.noteInitProblem(fr.fn.Pkg, fmt.Sprint(r))
				} else {
					panic(r)
				}
			}
			if v, ok := instr.(ssa.Value); ok {
				fr.env[v] = Poison{fmt.Sprint(r)}
			}
			k = kNext
			switch instr.(type) {
			case *ssa.If, *ssa.Jump, *ssa.Return, *ssa.Panic:
				// cannot continue sensibly: abandon this initialiser
				fr.block = nil
				k = kReturn
			}
		}
	}()
	return e.visitInstr(fr, instr)
}

func isRuntimeErr(r any) bool {
	_, ok := r.(interface{ RuntimeError() })
	return ok
}

func (e *Engine) executePhis(fr *frame) []ssa.Instruction {
	instrs := fr.block.Instrs
	firstNonPhi := 0
	for i, instr := range instrs {
		if _, ok := instr.(*ssa.Phi); !ok {
			firstNonPhi = i
			break
		}
	}
	if fr.skipPhis {
		// phis were evaluated (merged) by tryMergeRegion
		fr.skipPhis = false
		return instrs[firstNonPhi:]
	}
	if firstNonPhi > 0 {
		phis := instrs[:firstNonPhi]
		predIndex := slices.Index(fr.block.Preds, fr.prevBlock)
		fr.phitemps = fr.phitemps[:0]
		for _, phi := range phis {
			fr.phitemps = append(fr.phitemps, fr.get(phi.(*ssa.Phi).Edges[predIndex]))
		}
		for i, phi := range phis {
			fr.env[phi.(*ssa.Phi)] = fr.phitemps[i]
		}
	}
	return instrs[firstNonPhi:]
}

func (fr *frame) runDefer(d *deferred) {
	var ok bool
	defer func() {
		if !ok {
			r := recover()
			if tp, isTP := r.(targetPanic); isTP {
				fr.panicking = true
				fr.panic = tp
			} else {
				panic(r)
			}
		}
	}()
	fr.e.call(fr, d.instr.Pos(), d.fn, d.args)
	ok = true
}

func (fr *frame) runDefers() {
	for d := fr.defers; d != nil; d = d.tail {
		fr.runDefer(d)
	}
	fr.defers = nil
	if fr.panicking {
		panic(fr.panic)
	}
}

func (e *Engine) doRecover(caller *frame) value {
	if caller != nil && !caller.panicking && caller.caller != nil && caller.caller.panicking {
		caller.caller.panicking = false
		p := caller.caller.panic
		caller.caller.panic = nil
		if tp, ok := p.(targetPanic); ok {
			if iv, ok := tp.v.(Iface); ok {
				return iv
			}
			return Iface{t: types.Typ[types.String], v: Str{s: tp.msg}}
		}
	}
	return Iface{}
}

// ---------- type assertions ----------

func (e *Engine) typeAssert(fr *frame, instr *ssa.TypeAssert, itf Iface) value {
	var v value
	failed := false
	if itf.t == nil {
		failed = true
	} else if idst, ok := instr.AssertedType.Underlying().(*types.Interface); ok {
		v = itf
		if !e.implements(itf.t, idst) {
			failed = true
		}
	} else if types.Identical(itf.t, instr.AssertedType) {
		v = itf.v
	} else {
		failed = true
	}
	if failed {
		if !instr.CommaOk {
			desc := "nil"
			if itf.t != nil {
				desc = itf.t.String()
			}
			panic(targetPanic{v: e.rtErr("interface conversion"), rt: true,
				msg: fmt.Sprintf("interface conversion: interface is %s, not %s", desc, instr.AssertedType), pos: fr.posOf(instr)})
		}
		return Tuple{e.zero(instr.AssertedType), e.ctx.fls}
	}
	if instr.CommaOk {
		return Tuple{v, e.ctx.tru}
	}
	return v
}

type implKey struct {
	t types.Type
	i *types.Interface
}

func (e *Engine) implements(t types.Type, it *types.Interface) bool {
	k := implKey{t, it}
	if r, ok := e.implCache[k]; ok {
		return r
	}
	m, _ := types.MissingMethod(t, it, true)
	r := m == nil
	e.implCache[k] = r
	return r
}

// ---------- tracing ----------

func (e *Engine) traceInstr(fr *frame, instr ssa.Instruction) {
	ind := strings.Repeat(" ", fr.depth)
	if v, ok := instr.(ssa.Value); ok {
		fmt.Printf("%s%s: %s = %s\n", ind, fr.fn.Name(), v.Name(), instr)
	} else {
		fmt.Printf("%s%s: %s\n", ind, fr.fn.Name(), instr)
	}
}
