package main

// State merging at function granularity ("veritesting-lite"): a region (a
// closure passed to verifrt.MergeBool/MergeInt, or automatically a callee with
// scalar results) is explored over all of its local paths; the results and the
// memory writes of the local paths are merged into if-then-else terms instead
// of multiplying the paths of the caller.

import (
	"go/token"
	"go/types"

	"golang.org/x/tools/go/ssa"
)

type mergeAbort struct{ why string }

type mergeResult struct {
	cond   *Term
	val    value
	writes map[*value]value
	order  []*value
}

func (e *Engine) pcConj(ts []*Term) *Term {
	r := e.ctx.tru
	for _, t := range ts {
		r = e.ctx.And(r, t)
	}
	return r
}

// runMerged explores all local paths of thunk. ok=false means the region
// could not be merged (state is restored) and must be run normally.
func (e *Engine) runMerged(thunk func() value) (result value, ok bool) {
	results, ok := e.exploreLocal(thunk)
	if !ok {
		return nil, false
	}
	if len(results) == 0 {
		panic(pathEnd{"all paths of merged region infeasible"})
	}
	// merge results
	acc := results[len(results)-1].val
	for i := len(results) - 2; i >= 0; i-- {
		m, okm := e.mergeValue(results[i].cond, results[i].val, acc)
		if !okm {
			return nil, false
		}
		acc = m
	}
	if !e.applyMergedWrites(results) {
		return nil, false
	}
	return acc, true
}

// exploreLocal runs thunk over all of its local paths under the current path
// condition, rolling memory back after each. ok=false: not mergeable (a panic,
// a map mutation, too many paths, ...); the state is as before the call.
func (e *Engine) exploreLocal(thunk func() value) (results []mergeResult, ok bool) {
	outer := e.cur
	undoBase := len(e.undo)
	ndBase := len(e.nd)
	inBase, ufBase := e.internalN, len(e.ufCalls)
	var local []workItem
	nlocal := 0
	e.mergeDepth++
	defer func() {
		e.mergeDepth--
		e.cur = outer
		if r := recover(); r != nil {
			e.rollback(undoBase)
			// the aborted attempt must leave no trace in the numbering of
			// nondeterministic choices: the region is re-run by forking and a
			// replay of this path (possibly on a worker that skips the
			// attempt) has to produce the same variable names
			e.nd = e.nd[:ndBase]
			e.ndTerms = e.ndTerms[:ndBase]
			e.internalN = inBase
			if len(e.ufCalls) > ufBase {
				e.ufCalls = e.ufCalls[:ufBase]
			}
			if _, isAbort := r.(mergeAbort); isAbort {
				results, ok = nil, false
				return
			}
			if _, isTP := r.(targetPanic); isTP {
				// a panic on some local path: cannot merge
				results, ok = nil, false
				return
			}
			panic(r)
		}
	}()
	local = append(local, workItem{})
	for len(local) > 0 {
		it := local[len(local)-1]
		local = local[:len(local)-1]
		ctx := &pathCtx{parent: outer, prefix: it.decisions, local: &local, nlocal: &nlocal}
		if it.decisions == nil {
			ctx.model, ctx.ev = outer.model, outer.ev
		} else {
			ctx.setModel(it.model)
		}
		e.cur = ctx
		var val value
		ended := false
		func() {
			defer func() {
				if r := recover(); r != nil {
					if _, isEnd := r.(pathEnd); isEnd {
						ended = true
						return
					}
					panic(r)
				}
			}()
			val = thunk()
		}()
		if len(e.nd) != ndBase {
			panic(mergeAbort{"nondet inside merged region"})
		}
		// collect final values of written cells, then roll back
		mr := mergeResult{cond: e.pcConj(ctx.pc), val: val, writes: map[*value]value{}}
		for i := undoBase; i < len(e.undo); i++ {
			u := e.undo[i]
			if u.f != nil {
				if u.benign {
					continue
				}
				panic(mergeAbort{"map/channel mutation inside merged region"})
			}
			if _, seen := mr.writes[u.p]; !seen {
				mr.writes[u.p] = *u.p
				mr.order = append(mr.order, u.p)
			}
		}
		// pre-state values (oldest undo record per cell) are restored by rollback
		e.rollback(undoBase)
		if !ended {
			results = append(results, mr)
		}
	}
	e.cur = outer
	return results, true
}

// applyMergedWrites merges the memory writes of the local paths into the
// current state and assumes the disjunction of the local path conditions.
func (e *Engine) applyMergedWrites(results []mergeResult) bool {
	type cellMerge struct {
		p   *value
		val value
	}
	var merged []cellMerge
	seen := map[*value]bool{}
	for _, r := range results {
		for _, p := range r.order {
			if seen[p] {
				continue
			}
			seen[p] = true
			old := *p
			acc := old
			for i := len(results) - 1; i >= 0; i-- {
				nv, wrote := results[i].writes[p]
				if !wrote {
					nv = old
				}
				m, okm := e.mergeValue(results[i].cond, nv, acc)
				if !okm {
					return false
				}
				acc = m
			}
			merged = append(merged, cellMerge{p, acc})
		}
	}
	for _, cm := range merged {
		e.rawStore(cm.p, cm.val)
	}
	// the disjunction of the local path conditions holds (paths that ended in
	// an infeasible assumption are excluded)
	if len(results) > 0 {
		disj := e.ctx.fls
		for _, r := range results {
			disj = e.ctx.Or(disj, r.cond)
		}
		if !disj.IsTrue() {
			e.assume(disj)
		}
	}
	return true
}

func (e *Engine) rollback(base int) {
	for i := len(e.undo) - 1; i >= base; i-- {
		u := e.undo[i]
		if u.f != nil {
			u.f()
		} else {
			*u.p = u.old
		}
	}
	e.undo = e.undo[:base]
}

// mergeValue builds ite(cond, a, b) for mergeable values.
func (e *Engine) mergeValue(cond *Term, a, b value) (value, bool) {
	if identical(a, b) {
		return a, true
	}
	switch av := a.(type) {
	case *Term:
		bv, ok := b.(*Term)
		if !ok || av.w != bv.w {
			return nil, false
		}
		return e.ctx.Ite(cond, av, bv), true
	case Str:
		bv, ok := b.(Str)
		if !ok || av.Len() != bv.Len() {
			return nil, false
		}
		ts := make([]*Term, av.Len())
		for i := range ts {
			ts[i] = e.ctx.Ite(cond, e.strAt(av, i), e.strAt(bv, i))
		}
		return mkStr(ts), true
	case Tuple:
		bv, ok := b.(Tuple)
		if !ok || len(av) != len(bv) {
			return nil, false
		}
		r := make(Tuple, len(av))
		for i := range av {
			m, ok := e.mergeValue(cond, av[i], bv[i])
			if !ok {
				return nil, false
			}
			r[i] = m
		}
		return r, true
	case Struct:
		bv, ok := b.(Struct)
		if !ok || len(av) != len(bv) {
			return nil, false
		}
		r := make(Struct, len(av))
		for i := range av {
			m, ok := e.mergeValue(cond, av[i], bv[i])
			if !ok {
				return nil, false
			}
			r[i] = m
		}
		return r, true
	case Array:
		bv, ok := b.(Array)
		if !ok || len(av) != len(bv) {
			return nil, false
		}
		r := make(Array, len(av))
		for i := range av {
			m, ok := e.mergeValue(cond, av[i], bv[i])
			if !ok {
				return nil, false
			}
			r[i] = m
		}
		return r, true
	case Iface:
		bv, ok := b.(Iface)
		if !ok {
			return nil, false
		}
		if av.t == nil || bv.t == nil || !types.Identical(av.t, bv.t) {
			return nil, false
		}
		m, ok := e.mergeValue(cond, av.v, bv.v)
		if !ok {
			return nil, false
		}
		return Iface{t: av.t, v: m}, true
	}
	return nil, false
}

func identical(a, b value) bool {
	switch av := a.(type) {
	case nil:
		return b == nil
	case *Term:
		bv, ok := b.(*Term)
		return ok && av == bv
	case Str:
		bv, ok := b.(Str)
		if !ok || av.Len() != bv.Len() {
			return false
		}
		if av.sym == nil && bv.sym == nil {
			return av.s == bv.s
		}
		if av.sym == nil || bv.sym == nil {
			return false
		}
		for i := range av.sym {
			if av.sym[i] != bv.sym[i] {
				return false
			}
		}
		return true
	case Ptr:
		bv, ok := b.(Ptr)
		return ok && av.p == bv.p
	case float64:
		bv, ok := b.(float64)
		return ok && av == bv
	case []value:
		bv, ok := b.([]value)
		if !ok || len(av) != len(bv) || cap(av) != cap(bv) {
			return false
		}
		if av == nil || bv == nil {
			return av == nil && bv == nil
		}
		if cap(av) == 0 {
			return true
		}
		return &av[:1][0] == &bv[:1][0]
	case *Map:
		bv, ok := b.(*Map)
		return ok && av == bv
	case *Chan:
		bv, ok := b.(*Chan)
		return ok && av == bv
	case *ssa.Function:
		bv, ok := b.(*ssa.Function)
		return ok && av == bv
	case *Closure:
		bv, ok := b.(*Closure)
		return ok && av == bv
	case Iface:
		bv, ok := b.(Iface)
		if !ok {
			return false
		}
		if av.t == nil || bv.t == nil {
			return av.t == nil && bv.t == nil
		}
		return types.Identical(av.t, bv.t) && identical(av.v, bv.v)
	case Tuple:
		bv, ok := b.(Tuple)
		if !ok || len(av) != len(bv) {
			return false
		}
		for i := range av {
			if !identical(av[i], bv[i]) {
				return false
			}
		}
		return true
	case Struct:
		bv, ok := b.(Struct)
		if !ok || len(av) != len(bv) {
			return false
		}
		for i := range av {
			if !identical(av[i], bv[i]) {
				return false
			}
		}
		return true
	case Array:
		bv, ok := b.(Array)
		if !ok || len(av) != len(bv) {
			return false
		}
		for i := range av {
			if !identical(av[i], bv[i]) {
				return false
			}
		}
		return true
	}
	return false
}

// mergeCall implements verifrt.MergeBool / MergeInt: f is a func() T.
func (e *Engine) mergeCall(caller *frame, f value, w uint8) value {
	if e.cfg.NoMerge {
		return e.call(caller, token.NoPos, f, nil)
	}
	r, ok := e.runMerged(func() value { return e.call(caller, token.NoPos, f, nil) })
	if ok {
		return r
	}
	return e.call(caller, token.NoPos, f, nil)
}

// autoMergeable: callee with only scalar results.
func (e *Engine) autoMergeable(fn *ssa.Function) bool {
	res := fn.Signature.Results()
	if res.Len() == 0 || res.Len() > 3 {
		return false
	}
	for i := 0; i < res.Len(); i++ {
		b, ok := res.At(i).Type().Underlying().(*types.Basic)
		if !ok {
			return false
		}
		if _, _, isInt := intWidth(b); !isInt {
			return false
		}
	}
	return len(fn.Blocks) > 1
}
