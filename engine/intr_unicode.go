package main

import (
	"unicode"

	"golang.org/x/tools/go/ssa"
)

// unicode.IsSpace on a symbolic rune: the library searches range tables
// (a fork per comparison). The model is one term: membership in the ranges
// obtained by enumerating the real unicode.IsSpace over all code points when
// the engine starts, so it is exact for the Go version in use.
var spaceRanges [][2]rune

func init() {
	in := false
	var lo rune
	for r := rune(0); r <= unicode.MaxRune+1; r++ {
		s := r <= unicode.MaxRune && unicode.IsSpace(r)
		if s && !in {
			in, lo = true, r
		} else if !s && in {
			in = false
			spaceRanges = append(spaceRanges, [2]rune{lo, r - 1})
		}
	}
	reg("unicode.IsSpace", func(e *Engine, caller *frame, fn *ssa.Function, args []value) value {
		r := args[0].(*Term)
		if r.IsConst() {
			return e.ctx.Bool(unicode.IsSpace(rune(int32(r.val))))
		}
		c := e.ctx
		res := c.fls
		for _, rg := range spaceRanges {
			lo, hi := c.Const(32, uint64(uint32(rg[0]))), c.Const(32, uint64(uint32(rg[1])))
			if rg[0] == rg[1] {
				res = c.Or(res, c.Eq(r, lo))
			} else {
				res = c.Or(res, c.And(c.Sle(lo, r), c.Sle(r, hi)))
			}
		}
		return res
	})
}
