package main

// Incremental SMT solver bridge: one long-lived solver process per worker.
// Terms are introduced with define-fun at assertion level 0; queries are
// check-sat-assuming over named Boolean terms, so no push/pop is needed.

import (
	"bufio"
	"fmt"
	"io"
	"os"
	"os/exec"
	"strconv"
	"strings"
	"time"
)

var defAssert = os.Getenv("SYMGO_DEFMODE") == "assert"

type SatResult int

const (
	Unsat SatResult = iota
	Sat
	Unknown
)

func (r SatResult) String() string {
	return [...]string{"unsat", "sat", "unknown"}[r]
}

type Solver struct {
	kind    string // "z3-new", "z3", "cvc5"
	cmd     *exec.Cmd
	in      io.WriteCloser
	out     *bufio.Reader
	gen     int32
	defs    int
	vars    []*Term // declared vars in this generation
	varSeen map[*Term]bool
	buf     strings.Builder

	timeoutMs int
	// statistics
	Queries   int
	SatN      int
	UnsatN    int
	UnknownN  int
	Errors    int
	Time      time.Duration
	Resets    int
	lastError string
}

func solverArgv(kind string) []string {
	switch kind {
	case "z3":
		return []string{"z3", "-in"}
	case "cvc5":
		return []string{"cvc5", "--incremental", "--lang=smt2", "--produce-models"}
	default:
		return []string{"z3-new", "-in"}
	}
}

func NewSolver(kind string, timeoutMs int) (*Solver, error) {
	s := &Solver{kind: kind, timeoutMs: timeoutMs}
	if err := s.start(); err != nil {
		return nil, err
	}
	return s, nil
}

func (s *Solver) start() error {
	argv := solverArgv(s.kind)
	s.cmd = exec.Command(argv[0], argv[1:]...)
	in, err := s.cmd.StdinPipe()
	if err != nil {
		return err
	}
	out, err := s.cmd.StdoutPipe()
	if err != nil {
		return err
	}
	s.cmd.Stderr = nil
	if err := s.cmd.Start(); err != nil {
		return err
	}
	s.in = in
	s.out = bufio.NewReaderSize(out, 1<<16)
	s.gen++
	s.defs = 0
	s.vars = nil
	s.varSeen = make(map[*Term]bool)
	if s.kind == "cvc5" {
		fmt.Fprintf(s.in, "(set-logic ALL)\n(set-option :tlimit-per %d)\n", s.timeoutMs)
	} else {
		fmt.Fprintf(s.in, "(set-option :timeout %d)\n", s.timeoutMs)
	}
	return nil
}

func (s *Solver) Close() {
	if s.cmd != nil {
		s.in.Close()
		s.cmd.Process.Kill()
		s.cmd.Wait()
		s.cmd = nil
	}
}

func (s *Solver) restart() {
	s.Close()
	s.Resets++
	if err := s.start(); err != nil {
		panic(engineError{"solver restart: " + err.Error()})
	}
}

// define emits definitions for t and everything below it that is not yet
// known to the current solver generation.
func (s *Solver) define(t *Term) {
	if t.gen == s.gen || t.op == OpConst {
		return
	}
	// iterative post-order
	type item struct {
		t    *Term
		done bool
	}
	stack := []item{{t, false}}
	for len(stack) > 0 {
		it := stack[len(stack)-1]
		stack = stack[:len(stack)-1]
		x := it.t
		if x.gen == s.gen || x.op == OpConst {
			continue
		}
		if x.op == OpVar {
			fmt.Fprintf(&s.buf, "(declare-const %s %s)\n", x.name, sortStr(x.w))
			x.gen = s.gen
			s.vars = append(s.vars, x)
			continue
		}
		if it.done {
			if defAssert {
				fmt.Fprintf(&s.buf, "(declare-const t%d %s)\n(assert (= t%d %s))\n", x.id, sortStr(x.w), x.id, x.body())
			} else {
				fmt.Fprintf(&s.buf, "(define-fun t%d () %s %s)\n", x.id, sortStr(x.w), x.body())
			}
			x.gen = s.gen
			s.defs++
			continue
		}
		stack = append(stack, item{x, true})
		for _, ch := range [3]*Term{x.c, x.b, x.a} {
			if ch != nil && ch.gen != s.gen && ch.op != OpConst {
				stack = append(stack, item{ch, false})
			}
		}
	}
}

func lit(t *Term) string {
	if t.op == OpNot {
		return "(not " + t.a.ref() + ")"
	}
	return t.ref()
}

// Check decides satisfiability of the conjunction of lits. On Sat and
// wantModel it returns values for all declared variables.
func (s *Solver) Check(lits []*Term, wantModel bool) (SatResult, Model) {
	if s.defs > 400000 {
		s.restart()
	}
	start := time.Now()
	defer func() { s.Time += time.Since(start) }()
	s.Queries++
	s.buf.Reset()
	for _, l := range lits {
		if l.IsFalse() {
			s.UnsatN++
			return Unsat, nil
		}
		s.define(l)
	}
	s.buf.WriteString("(check-sat-assuming (")
	n := 0
	for _, l := range lits {
		if l.IsTrue() {
			continue
		}
		s.buf.WriteString(lit(l))
		s.buf.WriteByte(' ')
		n++
	}
	s.buf.WriteString("))\n")
	if _, err := io.WriteString(s.in, s.buf.String()); err != nil {
		panic(engineError{"solver write: " + err.Error()})
	}
	res := s.readStatus()
	switch res {
	case Sat:
		s.SatN++
		if wantModel {
			return Sat, s.getModel()
		}
	case Unsat:
		s.UnsatN++
	default:
		s.UnknownN++
	}
	return res, nil
}

func (s *Solver) readLine() string {
	line, err := s.out.ReadString('\n')
	if err != nil {
		panic(engineError{"solver died: " + err.Error() + " last=" + s.lastError})
	}
	return strings.TrimSpace(line)
}

func (s *Solver) readStatus() SatResult {
	sawError := false
	for {
		line := s.readLine()
		switch {
		case line == "sat":
			if sawError {
				return Unknown
			}
			return Sat
		case line == "unsat":
			if sawError {
				return Unknown
			}
			return Unsat
		case line == "unknown" || line == "timeout":
			return Unknown
		case strings.HasPrefix(line, "(error"):
			s.Errors++
			s.lastError = line
			sawError = true
			// unbalanced multi-line error messages: keep reading
		case line == "":
		default:
			// continuation of an error message
			if sawError {
				continue
			}
			s.lastError = line
			s.Errors++
			sawError = true
		}
	}
}

func (s *Solver) getModel() Model {
	m := make(Model, len(s.vars))
	if len(s.vars) == 0 {
		return m
	}
	var sb strings.Builder
	sb.WriteString("(get-value (")
	for _, v := range s.vars {
		sb.WriteString(v.name)
		sb.WriteByte(' ')
	}
	sb.WriteString("))\n")
	io.WriteString(s.in, sb.String())
	// read balanced s-expression
	var text strings.Builder
	depth := 0
	started := false
	for !started || depth > 0 {
		line := s.readLine()
		for _, ch := range line {
			if ch == '(' {
				depth++
				started = true
			} else if ch == ')' {
				depth--
			}
		}
		text.WriteString(line)
		text.WriteByte(' ')
	}
	parseModel(text.String(), m)
	return m
}

// parseModel parses "((name value) (name value) ...)".
func parseModel(txt string, m Model) {
	toks := tokenize(txt)
	// expect ( ( name val ) ... )
	i := 0
	for i < len(toks) {
		if toks[i] == "(" && i+1 < len(toks) && toks[i+1] != "(" {
			name := toks[i+1]
			// value is either single token or (_ bvN w)
			j := i + 2
			var val uint64
			if toks[j] == "(" {
				// (_ bv123 8)
				if toks[j+1] == "_" && strings.HasPrefix(toks[j+2], "bv") {
					v, _ := strconv.ParseUint(toks[j+2][2:], 10, 64)
					val = v
				}
				for toks[j] != ")" {
					j++
				}
				j++
			} else {
				val = parseValTok(toks[j])
				j++
			}
			m[name] = val
			i = j
			continue
		}
		i++
	}
}

func parseValTok(t string) uint64 {
	switch {
	case t == "true":
		return 1
	case t == "false":
		return 0
	case strings.HasPrefix(t, "#x"):
		v, _ := strconv.ParseUint(t[2:], 16, 64)
		return v
	case strings.HasPrefix(t, "#b"):
		v, _ := strconv.ParseUint(t[2:], 2, 64)
		return v
	}
	return 0
}

func tokenize(s string) []string {
	var toks []string
	cur := strings.Builder{}
	flush := func() {
		if cur.Len() > 0 {
			toks = append(toks, cur.String())
			cur.Reset()
		}
	}
	for _, ch := range s {
		switch ch {
		case '(', ')':
			flush()
			toks = append(toks, string(ch))
		case ' ', '\t', '\n', '\r':
			flush()
		default:
			cur.WriteRune(ch)
		}
	}
	flush()
	return toks
}

// Standalone renders a self-contained SMT-LIB script deciding the
// conjunction of lits (used for cross-checking on other solvers).
func Standalone(lits []*Term) string {
	var sb strings.Builder
	seen := map[*Term]bool{}
	var visit func(t *Term)
	visit = func(t *Term) {
		if seen[t] || t.op == OpConst {
			return
		}
		seen[t] = true
		if t.op == OpVar {
			fmt.Fprintf(&sb, "(declare-const %s %s)\n", t.name, sortStr(t.w))
			return
		}
		for _, ch := range [3]*Term{t.a, t.b, t.c} {
			if ch != nil {
				visit(ch)
			}
		}
		fmt.Fprintf(&sb, "(define-fun t%d () %s %s)\n", t.id, sortStr(t.w), t.body())
	}
	for _, l := range lits {
		visit(l)
	}
	for _, l := range lits {
		fmt.Fprintf(&sb, "(assert %s)\n", lit(l))
	}
	sb.WriteString("(check-sat)\n")
	return sb.String()
}

// OneShot runs a standalone script on the given solver binary.
func OneShot(kind, script string, timeout time.Duration) SatResult {
	var argv []string
	switch kind {
	case "cvc5":
		argv = []string{"cvc5", "--lang=smt2", fmt.Sprintf("--tlimit=%d", timeout.Milliseconds())}
		script = "(set-logic ALL)\n" + script
	case "z3":
		argv = []string{"z3", "-in", fmt.Sprintf("-T:%d", int(timeout.Seconds())+1)}
	default:
		argv = []string{"z3-new", "-in", fmt.Sprintf("-T:%d", int(timeout.Seconds())+1)}
	}
	cmd := exec.Command(argv[0], argv[1:]...)
	cmd.Stdin = strings.NewReader(script)
	out, _ := cmd.Output()
	txt := string(out)
	if strings.Contains(txt, "(error") {
		return Unknown
	}
	for _, line := range strings.Split(txt, "\n") {
		switch strings.TrimSpace(line) {
		case "sat":
			return Sat
		case "unsat":
			return Unsat
		}
	}
	return Unknown
}
