package main

// Goroutines as deterministic coroutines. Every interpreted goroutine runs on
// its own host goroutine, but exactly one holds the baton at any time; control
// changes hands only at a go statement (the child runs first), at a blocking
// channel/lock operation, and at thread exit. The schedule is a deterministic
// function of the path, so re-execution of a decision prefix reproduces it.

import (
	"fmt"
	"go/token"
)

type thread struct {
	id      int
	resume  chan bool   // true: continue; false: die (path is over)
	blocked func() bool // non-nil: parked until it returns true
	done    bool
}

type threadKill struct{}

func (e *Engine) mainThread() *thread {
	if e.curThread == nil {
		e.curThread = &thread{id: 0, resume: make(chan bool)}
		e.threads = []*thread{e.curThread}
	}
	return e.curThread
}

// switchTo hands the baton from the running thread to t and parks the caller
// until it is resumed.
func (e *Engine) switchTo(from, t *thread) {
	e.curThread = t
	t.resume <- true
	if ok := <-from.resume; !ok {
		panic(threadKill{})
	}
	e.curThread = from
	if e.threadPanic != nil && from.id == 0 {
		r := e.threadPanic
		e.threadPanic = nil
		panic(r)
	}
}

func (e *Engine) runnable(t *thread) bool {
	if t.done {
		return false
	}
	return t.blocked == nil || t.blocked()
}

func (e *Engine) pickRunnable(except *thread) *thread {
	if e.threadPanic != nil && except.id != 0 {
		return e.threads[0]
	}
	for i := len(e.threads) - 1; i >= 0; i-- {
		t := e.threads[i]
		if t != except && e.runnable(t) {
			return t
		}
	}
	return nil
}

// spawn starts a goroutine; the child runs first, until it blocks or ends.
func (e *Engine) spawn(caller *frame, pos token.Pos, fn value, args []value) {
	if e.mergeDepth > 0 {
		panic(mergeAbort{"go statement inside merged region"})
	}
	parent := e.mainThread()
	t := &thread{id: len(e.threads), resume: make(chan bool)}
	e.threads = append(e.threads, t)
	go func() {
		if ok := <-t.resume; !ok {
			e.killAck <- struct{}{}
			return
		}
		killed := false
		defer func() {
			r := recover()
			t.done = true
			if r != nil {
				if _, k := r.(threadKill); k {
					killed = true
				} else if e.threadPanic == nil {
					e.threadPanic = r
				}
			}
			if killed {
				e.killAck <- struct{}{}
				return
			}
			// pass the baton on
			next := e.pickRunnable(t)
			if next == nil {
				// nobody can run: hand back to main, which will report
				next = e.threads[0]
				if e.threadPanic == nil {
					e.threadPanic = engineError{"deadlock: all goroutines are blocked"}
				}
			}
			e.curThread = next
			next.resume <- true
		}()
		e.call(nil, pos, fn, args)
	}()
	e.switchTo(parent, t)
}

// block parks the running thread until cond holds.
func (e *Engine) block(cond func() bool, what string) {
	if cond() {
		return
	}
	if e.mergeDepth > 0 {
		panic(mergeAbort{"blocking operation inside merged region"})
	}
	self := e.mainThread()
	self.blocked = cond
	for !cond() {
		next := e.pickRunnable(self)
		if next == nil {
			self.blocked = nil
			panic(engineError{"deadlock: " + what + " blocks forever (no runnable goroutine)"})
		}
		e.switchTo(self, next)
	}
	self.blocked = nil
}

// drainThreads lets every runnable goroutine finish after the harness entry
// has returned (goroutines still blocked then are leaked by the target).
func (e *Engine) drainThreads() {
	if len(e.threads) <= 1 {
		return
	}
	self := e.threads[0]
	for i := 0; i < 10000; i++ {
		next := e.pickRunnable(self)
		if next == nil {
			return
		}
		e.switchTo(self, next)
	}
	panic(engineError{"goroutines did not quiesce"})
}

// killThreads terminates all parked goroutines at the end of a path.
func (e *Engine) killThreads() {
	for _, t := range e.threads {
		if t.id != 0 && !t.done {
			t.resume <- false
			<-e.killAck
		}
	}
	e.threads = nil
	e.curThread = nil
	e.threadPanic = nil
}

// ---------- locks ----------

type lockState struct {
	writer  bool
	readers int
}

func (e *Engine) lockOf(p *value) *lockState {
	if e.locks == nil {
		e.locks = map[*value]*lockState{}
	}
	l := e.locks[p]
	if l == nil {
		l = &lockState{}
		e.locks[p] = l
	}
	return l
}

func (e *Engine) lockW(p *value) {
	l := e.lockOf(p)
	e.block(func() bool { return !l.writer && l.readers == 0 }, "Lock")
	l.writer = true
	e.undo = append(e.undo, undoRec{benign: true, f: func() { l.writer = false }})
}

func (e *Engine) unlockW(p *value) {
	l := e.lockOf(p)
	if !l.writer {
		panic(targetPanic{v: Iface{t: e.rtErrType, v: Str{s: "sync: unlock of unlocked mutex"}}, msg: "sync: unlock of unlocked mutex"})
	}
	l.writer = false
	e.undo = append(e.undo, undoRec{benign: true, f: func() { l.writer = true }})
}

func (e *Engine) lockR(p *value) {
	l := e.lockOf(p)
	e.block(func() bool { return !l.writer }, "RLock")
	l.readers++
	e.undo = append(e.undo, undoRec{benign: true, f: func() { l.readers-- }})
}

func (e *Engine) unlockR(p *value) {
	l := e.lockOf(p)
	if l.readers <= 0 {
		panic(targetPanic{v: Iface{t: e.rtErrType, v: Str{s: "sync: RUnlock of unlocked RWMutex"}}, msg: "sync: RUnlock of unlocked RWMutex"})
	}
	l.readers--
	e.undo = append(e.undo, undoRec{benign: true, f: func() { l.readers++ }})
}

func describeThread(t *thread) string { return fmt.Sprintf("g%d", t.id) }
