package main

// Value model. All interpreter values are boxed in `value` (any):
//
//   *Term      bool and all integer kinds (concrete constant or symbolic)
//   float64    floats (concrete only)
//   Str        strings: concrete or one 8-bit term per byte; length concrete
//   Ptr        pointers: Go pointer to the boxed cell (+ the rest of the
//              containing array for element pointers)
//   Struct     []value, fields by index
//   Array      []value
//   []value    slices (Go slice header gives len/cap/aliasing; nil = nil)
//   *Map       maps (association list, insertion ordered)
//   *Chan      channels
//   Iface      interface values
//   *ssa.Function, *Closure, *ssa.Builtin   functions
//   Tuple      multi-value results
//   SymPtr     pointer to array element with a symbolic index

import (
	"fmt"
	"go/types"
	"strings"

	"golang.org/x/tools/go/ssa"
)

type value = any

type Tuple []value
type Struct []value
type Array []value

type Iface struct {
	t types.Type
	v value
}

type Closure struct {
	Fn  *ssa.Function
	Env []value
}

type Ptr struct {
	p   *value  // nil => nil pointer
	arr []value // for element pointers: arr[0] is *p, rest follows in the same backing array
}

// SymPtr addresses arr[idx] for a symbolic idx (bounds already obliged).
type SymPtr struct {
	arr []value
	idx *Term // 64-bit
}

type Str struct {
	s   string
	sym []*Term // if non-nil, the content (8-bit terms); s is unused
}

func (s Str) Len() int {
	if s.sym != nil {
		return len(s.sym)
	}
	return len(s.s)
}

func (s Str) IsConc() bool { return s.sym == nil }

func (s Str) String() string {
	if s.sym == nil {
		return fmt.Sprintf("%q", s.s)
	}
	var sb strings.Builder
	sb.WriteString("sym\"")
	for _, t := range s.sym {
		if t.IsConst() {
			q := fmt.Sprintf("%q", string(rune(byte(t.val))))
			sb.WriteString(q[1 : len(q)-1])
		} else {
			sb.WriteString("{" + t.String() + "}")
		}
	}
	sb.WriteByte('"')
	return sb.String()
}

func (e *Engine) strAt(s Str, i int) *Term {
	if s.sym != nil {
		return s.sym[i]
	}
	return e.ctx.Const(8, uint64(s.s[i]))
}

func (e *Engine) strTerms(s Str) []*Term {
	if s.sym != nil {
		return s.sym
	}
	r := make([]*Term, len(s.s))
	for i := 0; i < len(s.s); i++ {
		r[i] = e.ctx.Const(8, uint64(s.s[i]))
	}
	return r
}

// mkStr normalises: all-constant content becomes a concrete Go string.
func mkStr(ts []*Term) Str {
	for _, t := range ts {
		if !t.IsConst() {
			cp := make([]*Term, len(ts))
			copy(cp, ts)
			return Str{sym: cp}
		}
	}
	b := make([]byte, len(ts))
	for i, t := range ts {
		b[i] = byte(t.val)
	}
	return Str{s: string(b)}
}

func (e *Engine) strSlice(s Str, lo, hi int) Str {
	if s.sym != nil {
		return mkStr(s.sym[lo:hi])
	}
	return Str{s: s.s[lo:hi]}
}

func (e *Engine) strConcat(a, b Str) Str {
	if a.sym == nil && b.sym == nil {
		return Str{s: a.s + b.s}
	}
	if a.Len() == 0 {
		return b
	}
	if b.Len() == 0 {
		return a
	}
	r := make([]*Term, 0, a.Len()+b.Len())
	r = append(r, e.strTerms(a)...)
	r = append(r, e.strTerms(b)...)
	return Str{sym: r}
}

// ---------- maps ----------

type mapEntry struct {
	key  value
	val  value
	ckey string // canonical key if concrete
	conc bool
	dead bool
}

type Map struct {
	keyT    types.Type
	entries []*mapEntry
	index   map[string]*mapEntry
	nsym    int
	live    int
}

func newMap(keyT types.Type) *Map {
	return &Map{keyT: keyT, index: map[string]*mapEntry{}}
}

// ---------- channels (thread mode / simple buffered use) ----------

type Chan struct {
	buf         []value
	cap         int
	closed      bool
	recvWaiting int // goroutines parked in a receive on this channel
}

// ---------- type helpers ----------

func intWidth(b *types.Basic) (w uint8, signed bool, ok bool) {
	switch b.Kind() {
	case types.Bool, types.UntypedBool:
		return 0, false, true
	case types.Int8:
		return 8, true, true
	case types.Int16:
		return 16, true, true
	case types.Int32, types.UntypedRune:
		return 32, true, true
	case types.Int64, types.Int, types.UntypedInt:
		return 64, true, true
	case types.Uint8:
		return 8, false, true
	case types.Uint16:
		return 16, false, true
	case types.Uint32:
		return 32, false, true
	case types.Uint64, types.Uint, types.Uintptr:
		return 64, false, true
	}
	return 0, false, false
}

func isSigned(t types.Type) bool {
	if b, ok := t.Underlying().(*types.Basic); ok {
		_, s, _ := intWidth(b)
		return s
	}
	return false
}

func isFloat(t types.Type) bool {
	if b, ok := t.Underlying().(*types.Basic); ok {
		return b.Info()&types.IsFloat != 0
	}
	return false
}

func isString(t types.Type) bool {
	if b, ok := t.Underlying().(*types.Basic); ok {
		return b.Info()&types.IsString != 0
	}
	return false
}

func (e *Engine) zero(t types.Type) value {
	switch t := t.(type) {
	case *types.Basic:
		if w, _, ok := intWidth(t); ok {
			return e.ctx.Const(w, 0)
		}
		switch {
		case t.Info()&types.IsString != 0:
			return Str{}
		case t.Info()&types.IsFloat != 0:
			return float64(0)
		case t.Kind() == types.UnsafePointer:
			return Ptr{}
		case t.Kind() == types.UntypedNil:
			panic("untyped nil has no zero value")
		case t.Info()&types.IsComplex != 0:
			return complex128(0)
		}
		panic(engineError{fmt.Sprintf("zero: unsupported basic %v", t)})
	case *types.Pointer:
		return Ptr{}
	case *types.Array:
		n := int(t.Len())
		a := make(Array, n)
		if n > 0 {
			et := t.Elem()
			switch et.Underlying().(type) {
			case *types.Struct, *types.Array:
				for i := range a {
					a[i] = e.zero(et)
				}
			default:
				z := e.zero(et)
				for i := range a {
					a[i] = z
				}
			}
		}
		return a
	case *types.Named:
		return e.zero(t.Underlying())
	case *types.Alias:
		return e.zero(types.Unalias(t))
	case *types.Interface:
		return Iface{}
	case *types.Slice:
		return []value(nil)
	case *types.Struct:
		s := make(Struct, t.NumFields())
		for i := range s {
			s[i] = e.zero(t.Field(i).Type())
		}
		return s
	case *types.Tuple:
		if t.Len() == 1 {
			return e.zero(t.At(0).Type())
		}
		s := make(Tuple, t.Len())
		for i := range s {
			s[i] = e.zero(t.At(i).Type())
		}
		return s
	case *types.Chan:
		return (*Chan)(nil)
	case *types.Map:
		return (*Map)(nil)
	case *types.Signature:
		return (*ssa.Function)(nil)
	}
	panic(engineError{fmt.Sprintf("zero: unsupported type %T %v", t, t)})
}

func copyVal(v value) value {
	switch v := v.(type) {
	case Struct:
		c := make(Struct, len(v))
		for i, x := range v {
			c[i] = copyVal(x)
		}
		return c
	case Array:
		c := make(Array, len(v))
		for i, x := range v {
			switch x.(type) {
			case Struct, Array:
				c[i] = copyVal(x)
			default:
				c[i] = x
			}
		}
		return c
	}
	return v
}

// keyString returns a canonical encoding of a fully concrete, hashable value.
func keyString(v value) (string, bool) {
	switch v := v.(type) {
	case *Term:
		if v.IsConst() {
			return fmt.Sprintf("i%d:%d", v.w, v.val), true
		}
		return "", false
	case Str:
		if v.sym == nil {
			return "s" + v.s, true
		}
		return "", false
	case float64:
		return fmt.Sprintf("f%v", v), true
	case Ptr:
		return fmt.Sprintf("p%p", v.p), true
	case *Chan:
		return fmt.Sprintf("c%p", v), true
	case Iface:
		if v.t == nil {
			return "nil", true
		}
		k, ok := keyString(v.v)
		return "I" + v.t.String() + "|" + k, ok
	case Struct:
		var sb strings.Builder
		sb.WriteString("S{")
		for _, f := range v {
			k, ok := keyString(f)
			if !ok {
				return "", false
			}
			fmt.Fprintf(&sb, "%d:%s,", len(k), k)
		}
		sb.WriteString("}")
		return sb.String(), true
	case Array:
		var sb strings.Builder
		sb.WriteString("A[")
		for _, f := range v {
			k, ok := keyString(f)
			if !ok {
				return "", false
			}
			fmt.Fprintf(&sb, "%d:%s,", len(k), k)
		}
		sb.WriteString("]")
		return sb.String(), true
	}
	panic(engineError{fmt.Sprintf("keyString: unhashable %T", v)})
}

// equals returns a Bool term: x == y for values of static type t.
func (e *Engine) equals(t types.Type, x, y value) *Term {
	c := e.ctx
	switch x := x.(type) {
	case *Term:
		return c.Eq(x, y.(*Term))
	case float64:
		return c.Bool(x == y.(float64))
	case complex128:
		return c.Bool(x == y.(complex128))
	case Str:
		return e.strEq(x, y.(Str))
	case Ptr:
		switch y := y.(type) {
		case Ptr:
			return c.Bool(x.p == y.p)
		case SymPtr:
			return c.fls
		}
	case SymPtr:
		panic(engineError{"comparison of symbolic pointers"})
	case *Chan:
		return c.Bool(x == y.(*Chan))
	case *Map:
		return c.Bool(x == y.(*Map))
	case Iface:
		yi := y.(Iface)
		if x.t == nil || yi.t == nil {
			return c.Bool(x.t == nil && yi.t == nil)
		}
		if !types.Identical(x.t, yi.t) {
			return c.fls
		}
		return e.equals(x.t, x.v, yi.v)
	case Struct:
		ys := y.(Struct)
		st := t.Underlying().(*types.Struct)
		r := c.tru
		for i := range x {
			f := st.Field(i)
			if f.Name() == "_" {
				continue
			}
			r = c.And(r, e.equals(f.Type(), x[i], ys[i]))
			if r.IsFalse() {
				return r
			}
		}
		return r
	case Array:
		ya := y.(Array)
		et := t.Underlying().(*types.Array).Elem()
		r := c.tru
		for i := range x {
			r = c.And(r, e.equals(et, x[i], ya[i]))
			if r.IsFalse() {
				return r
			}
		}
		return r
	case *ssa.Function:
		if yf, ok := y.(*ssa.Function); ok {
			return c.Bool(x == yf)
		}
		return c.Bool(x == nil && isNilFunc(y))
	case *Closure:
		if yc, ok := y.(*Closure); ok {
			return c.Bool(x == yc)
		}
		return c.Bool(x == nil && isNilFunc(y))
	case *ssa.Builtin:
		return c.Bool(false)
	case []value:
		// only comparable to nil
		return c.Bool(x == nil && y.([]value) == nil)
	}
	panic(engineError{fmt.Sprintf("equals: unsupported %T vs %T", x, y)})
}

func isNilFunc(v value) bool {
	switch f := v.(type) {
	case *ssa.Function:
		return f == nil
	case *Closure:
		return f == nil
	}
	return false
}

func (e *Engine) strEq(a, b Str) *Term {
	c := e.ctx
	if a.Len() != b.Len() {
		return c.fls
	}
	if a.sym == nil && b.sym == nil {
		return c.Bool(a.s == b.s)
	}
	r := c.tru
	for i := 0; i < a.Len(); i++ {
		r = c.And(r, c.Eq(e.strAt(a, i), e.strAt(b, i)))
		if r.IsFalse() {
			return r
		}
	}
	return r
}

// strLess: lexicographic a < b as a Bool term.
func (e *Engine) strLess(a, b Str) *Term {
	c := e.ctx
	if a.sym == nil && b.sym == nil {
		return c.Bool(a.s < b.s)
	}
	n := a.Len()
	if b.Len() < n {
		n = b.Len()
	}
	// from the end backwards
	r := c.Bool(a.Len() < b.Len())
	for i := n - 1; i >= 0; i-- {
		x, y := e.strAt(a, i), e.strAt(b, i)
		r = c.Ite(c.Eq(x, y), r, c.Ult(x, y))
	}
	return r
}

func typeOfValueDesc(v value) string {
	return fmt.Sprintf("%T", v)
}
