package main

// Terms: hash-consed DAG of SMT expressions over Bool and fixed-width
// bit-vectors, with constant folding and light simplification.

import (
	"fmt"
	"math/bits"
	"strings"
)

type Op uint8

const (
	OpConst Op = iota
	OpVar
	// boolean
	OpNot
	OpAnd
	OpOr
	OpEq  // any sort -> Bool
	OpIte // Bool, T, T -> T
	OpUlt
	OpUle
	OpSlt
	OpSle
	// bit-vector
	OpAdd
	OpSub
	OpMul
	OpUDiv
	OpURem
	OpSDiv
	OpSRem
	OpBAnd
	OpBOr
	OpBXor
	OpShl
	OpLShr
	OpAShr
	OpNeg
	OpBNot
	OpZExt    // aux = extra bits
	OpSExt    // aux = extra bits
	OpExtract // aux = hi<<8|lo
	OpConcat
)

var opNames = map[Op]string{
	OpNot: "not", OpAnd: "and", OpOr: "or", OpEq: "=", OpIte: "ite",
	OpUlt: "bvult", OpUle: "bvule", OpSlt: "bvslt", OpSle: "bvsle",
	OpAdd: "bvadd", OpSub: "bvsub", OpMul: "bvmul", OpUDiv: "bvudiv", OpURem: "bvurem",
	OpSDiv: "bvsdiv", OpSRem: "bvsrem", OpBAnd: "bvand", OpBOr: "bvor", OpBXor: "bvxor",
	OpShl: "bvshl", OpLShr: "bvlshr", OpAShr: "bvashr", OpNeg: "bvneg", OpBNot: "bvnot",
	OpConcat: "concat",
}

// Term is an immutable SMT term. w==0 means Bool.
type Term struct {
	op   Op
	w    uint8
	aux  uint16
	val  uint64 // OpConst
	a    *Term
	b    *Term
	c    *Term
	name string // OpVar
	id   int32
	gen  int32 // solver generation in which this term was defined
}

type termKey struct {
	op      Op
	w       uint8
	aux     uint16
	val     uint64
	a, b, c int32
	name    string
}

// TermCtx owns the hash-cons table. One per worker.
type TermCtx struct {
	tab    map[termKey]*Term
	nextID int32
	small  [65][]*Term // interned small constants per width
	tru    *Term
	fls    *Term
}

func NewTermCtx() *TermCtx {
	c := &TermCtx{tab: make(map[termKey]*Term, 1<<16)}
	c.tru = c.mk(Term{op: OpConst, w: 0, val: 1})
	c.fls = c.mk(Term{op: OpConst, w: 0, val: 0})
	return c
}

func (c *TermCtx) mk(t Term) *Term {
	k := termKey{op: t.op, w: t.w, aux: t.aux, val: t.val, name: t.name, a: -1, b: -1, c: -1}
	if t.a != nil {
		k.a = t.a.id
	}
	if t.b != nil {
		k.b = t.b.id
	}
	if t.c != nil {
		k.c = t.c.id
	}
	if r, ok := c.tab[k]; ok {
		return r
	}
	c.nextID++
	t.id = c.nextID
	t.gen = -1
	r := new(Term)
	*r = t
	c.tab[k] = r
	return r
}

func mask(w uint8) uint64 {
	if w >= 64 {
		return ^uint64(0)
	}
	return (uint64(1) << w) - 1
}

func (c *TermCtx) Const(w uint8, v uint64) *Term {
	if w == 0 {
		if v != 0 {
			return c.tru
		}
		return c.fls
	}
	v &= mask(w)
	if v < 512 {
		s := c.small[w]
		if s == nil {
			s = make([]*Term, 512)
			c.small[w] = s
		}
		if s[v] == nil {
			s[v] = c.mk(Term{op: OpConst, w: w, val: v})
		}
		return s[v]
	}
	return c.mk(Term{op: OpConst, w: w, val: v})
}

func (c *TermCtx) Bool(b bool) *Term {
	if b {
		return c.tru
	}
	return c.fls
}

func (c *TermCtx) Var(name string, w uint8) *Term {
	return c.mk(Term{op: OpVar, w: w, name: name})
}

func (t *Term) IsConst() bool { return t.op == OpConst }
func (t *Term) IsTrue() bool  { return t.op == OpConst && t.w == 0 && t.val == 1 }
func (t *Term) IsFalse() bool { return t.op == OpConst && t.w == 0 && t.val == 0 }

// signed value of a constant
func (t *Term) SVal() int64 { return sext(t.val, t.w) }

func sext(v uint64, w uint8) int64 {
	if w >= 64 {
		return int64(v)
	}
	sh := 64 - uint(w)
	return int64(v<<sh) >> sh
}

func (c *TermCtx) Not(a *Term) *Term {
	if a.op == OpConst {
		return c.Bool(a.val == 0)
	}
	if a.op == OpNot {
		return a.a
	}
	return c.mk(Term{op: OpNot, a: a})
}

func (c *TermCtx) And(a, b *Term) *Term {
	if a.op == OpConst {
		if a.val == 0 {
			return c.fls
		}
		return b
	}
	if b.op == OpConst {
		if b.val == 0 {
			return c.fls
		}
		return a
	}
	if a == b {
		return a
	}
	if (a.op == OpNot && a.a == b) || (b.op == OpNot && b.a == a) {
		return c.fls
	}
	if a.id > b.id {
		a, b = b, a
	}
	return c.mk(Term{op: OpAnd, a: a, b: b})
}

func (c *TermCtx) Or(a, b *Term) *Term {
	if a.op == OpConst {
		if a.val != 0 {
			return c.tru
		}
		return b
	}
	if b.op == OpConst {
		if b.val != 0 {
			return c.tru
		}
		return a
	}
	if a == b {
		return a
	}
	if (a.op == OpNot && a.a == b) || (b.op == OpNot && b.a == a) {
		return c.tru
	}
	if a.id > b.id {
		a, b = b, a
	}
	return c.mk(Term{op: OpOr, a: a, b: b})
}

func (c *TermCtx) Implies(a, b *Term) *Term { return c.Or(c.Not(a), b) }

func (c *TermCtx) Eq(a, b *Term) *Term {
	if a.w != b.w {
		panic(fmt.Sprintf("Eq width mismatch %d %d", a.w, b.w))
	}
	if a == b {
		return c.tru
	}
	if a.op == OpConst && b.op == OpConst {
		return c.Bool(a.val == b.val)
	}
	if a.op == OpConst {
		a, b = b, a
	}
	// b may be const now
	if b.op == OpConst {
		if a.w == 0 {
			if b.val != 0 {
				return a
			}
			return c.Not(a)
		}
		if a.op == OpIte {
			// ite(c, x, y) == k  with x,y const
			if a.b.op == OpConst && a.c.op == OpConst {
				tb := a.b.val == b.val
				tc := a.c.val == b.val
				switch {
				case tb && tc:
					return c.tru
				case tb:
					return a.a
				case tc:
					return c.Not(a.a)
				default:
					return c.fls
				}
			}
			if a.b.op == OpConst {
				if a.b.val == b.val {
					return c.Or(a.a, c.Eq(a.c, b))
				}
				return c.And(c.Not(a.a), c.Eq(a.c, b))
			}
			if a.c.op == OpConst {
				if a.c.val == b.val {
					return c.Or(c.Not(a.a), c.Eq(a.b, b))
				}
				return c.And(a.a, c.Eq(a.b, b))
			}
		}
		if a.op == OpZExt {
			iw := a.a.w
			if b.val > mask(iw) {
				return c.fls
			}
			return c.Eq(a.a, c.Const(iw, b.val))
		}
	}
	if a.id > b.id {
		a, b = b, a
	}
	return c.mk(Term{op: OpEq, a: a, b: b})
}

func (c *TermCtx) Ite(cond, a, b *Term) *Term {
	if a.w != b.w {
		panic("Ite width mismatch")
	}
	if cond.op == OpConst {
		if cond.val != 0 {
			return a
		}
		return b
	}
	if a == b {
		return a
	}
	if cond.op == OpNot {
		cond, a, b = cond.a, b, a
	}
	if a.w == 0 {
		if a.op == OpConst && b.op == OpConst {
			if a.val != 0 {
				return cond
			}
			return c.Not(cond)
		}
		if a.op == OpConst {
			if a.val != 0 {
				return c.Or(cond, b)
			}
			return c.And(c.Not(cond), b)
		}
		if b.op == OpConst {
			if b.val != 0 {
				return c.Or(c.Not(cond), a)
			}
			return c.And(cond, a)
		}
	}
	// ite(c, x, ite(c, y, z)) = ite(c, x, z)
	if b.op == OpIte && b.a == cond {
		b = b.c
	}
	if a.op == OpIte && a.a == cond {
		a = a.b
	}
	return c.mk(Term{op: OpIte, w: a.w, a: cond, b: a, c: b})
}

func (c *TermCtx) cmp(op Op, a, b *Term) *Term {
	if a.w != b.w {
		panic(fmt.Sprintf("cmp width mismatch %d %d", a.w, b.w))
	}
	if a.op == OpConst && b.op == OpConst {
		switch op {
		case OpUlt:
			return c.Bool(a.val < b.val)
		case OpUle:
			return c.Bool(a.val <= b.val)
		case OpSlt:
			return c.Bool(a.SVal() < b.SVal())
		case OpSle:
			return c.Bool(a.SVal() <= b.SVal())
		}
	}
	if a == b {
		return c.Bool(op == OpUle || op == OpSle)
	}
	switch op {
	case OpUlt:
		if b.op == OpConst && b.val == 0 {
			return c.fls
		}
		if a.op == OpConst && a.val == mask(a.w) {
			return c.fls
		}
	case OpUle:
		if a.op == OpConst && a.val == 0 {
			return c.tru
		}
		if b.op == OpConst && b.val == mask(b.w) {
			return c.tru
		}
	}
	// comparisons of zero-extended values against constants
	if a.op == OpZExt && b.op == OpConst && (op == OpUlt || op == OpUle) {
		iw := a.a.w
		if b.val > mask(iw) {
			return c.tru
		}
		return c.cmp(op, a.a, c.Const(iw, b.val))
	}
	if b.op == OpZExt && a.op == OpConst && (op == OpUlt || op == OpUle) {
		iw := b.a.w
		if a.val > mask(iw) {
			return c.fls
		}
		return c.cmp(op, c.Const(iw, a.val), b.a)
	}
	if a.op == OpZExt && b.op == OpConst && (op == OpSlt || op == OpSle) && a.w > a.a.w {
		// zext value is non-negative
		if b.SVal() < 0 {
			return c.fls
		}
		uop := OpUlt
		if op == OpSle {
			uop = OpUle
		}
		return c.cmp(uop, a, b)
	}
	if b.op == OpZExt && a.op == OpConst && (op == OpSlt || op == OpSle) && b.w > b.a.w {
		if a.SVal() < 0 {
			return c.tru
		}
		uop := OpUlt
		if op == OpSle {
			uop = OpUle
		}
		return c.cmp(uop, a, b)
	}
	return c.mk(Term{op: op, a: a, b: b})
}

func (c *TermCtx) Ult(a, b *Term) *Term { return c.cmp(OpUlt, a, b) }
func (c *TermCtx) Ule(a, b *Term) *Term { return c.cmp(OpUle, a, b) }
func (c *TermCtx) Slt(a, b *Term) *Term { return c.cmp(OpSlt, a, b) }
func (c *TermCtx) Sle(a, b *Term) *Term { return c.cmp(OpSle, a, b) }

func foldBin(op Op, w uint8, x, y uint64) (uint64, bool) {
	m := mask(w)
	switch op {
	case OpAdd:
		return (x + y) & m, true
	case OpSub:
		return (x - y) & m, true
	case OpMul:
		return (x * y) & m, true
	case OpUDiv:
		if y == 0 {
			return m, true
		}
		return x / y, true
	case OpURem:
		if y == 0 {
			return x, true
		}
		return x % y, true
	case OpSDiv:
		sx, sy := sext(x, w), sext(y, w)
		if sy == 0 {
			if sx < 0 {
				return 1, true
			}
			return m, true
		}
		if sy == -1 {
			return uint64(-sx) & m, true
		}
		return uint64(sx/sy) & m, true
	case OpSRem:
		sx, sy := sext(x, w), sext(y, w)
		if sy == 0 {
			return x, true
		}
		if sy == -1 {
			return 0, true
		}
		return uint64(sx%sy) & m, true
	case OpBAnd:
		return x & y, true
	case OpBOr:
		return x | y, true
	case OpBXor:
		return x ^ y, true
	case OpShl:
		if y >= uint64(w) {
			return 0, true
		}
		return (x << y) & m, true
	case OpLShr:
		if y >= uint64(w) {
			return 0, true
		}
		return x >> y, true
	case OpAShr:
		sx := sext(x, w)
		if y >= uint64(w) {
			y = uint64(w) - 1
		}
		return uint64(sx>>y) & m, true
	}
	return 0, false
}

func (c *TermCtx) Bin(op Op, a, b *Term) *Term {
	if a.w != b.w {
		panic(fmt.Sprintf("Bin %v width mismatch %d %d", opNames[op], a.w, b.w))
	}
	w := a.w
	if a.op == OpConst && b.op == OpConst {
		if v, ok := foldBin(op, w, a.val, b.val); ok {
			return c.Const(w, v)
		}
	}
	switch op {
	case OpAdd:
		if a.op == OpConst && a.val == 0 {
			return b
		}
		if b.op == OpConst && b.val == 0 {
			return a
		}
		// (x + k1) + k2
		if b.op == OpConst && a.op == OpAdd && a.b.op == OpConst {
			return c.Bin(OpAdd, a.a, c.Const(w, a.b.val+b.val))
		}
		if a.op == OpConst {
			a, b = b, a
		}
	case OpSub:
		if b.op == OpConst && b.val == 0 {
			return a
		}
		if a == b {
			return c.Const(w, 0)
		}
		if b.op == OpConst {
			return c.Bin(OpAdd, a, c.Const(w, -b.val))
		}
	case OpMul:
		if a.op == OpConst {
			a, b = b, a
		}
		if b.op == OpConst {
			if b.val == 0 {
				return b
			}
			if b.val == 1 {
				return a
			}
			if bits.OnesCount64(b.val) == 1 {
				return c.Bin(OpShl, a, c.Const(w, uint64(bits.TrailingZeros64(b.val))))
			}
		}
	case OpUDiv:
		if b.op == OpConst && b.val == 1 {
			return a
		}
		if b.op == OpConst && b.val != 0 && bits.OnesCount64(b.val) == 1 {
			return c.Bin(OpLShr, a, c.Const(w, uint64(bits.TrailingZeros64(b.val))))
		}
	case OpURem:
		if b.op == OpConst && b.val != 0 && bits.OnesCount64(b.val) == 1 {
			return c.Bin(OpBAnd, a, c.Const(w, b.val-1))
		}
	case OpBAnd:
		if a.op == OpConst {
			a, b = b, a
		}
		if b.op == OpConst {
			if b.val == 0 {
				return b
			}
			if b.val == mask(w) {
				return a
			}
			// zext(x) & k where k covers all of x's bits
			if a.op == OpZExt && b.val&mask(a.a.w) == mask(a.a.w) {
				return a
			}
		}
		if a == b {
			return a
		}
	case OpBOr:
		if a.op == OpConst {
			a, b = b, a
		}
		if b.op == OpConst {
			if b.val == 0 {
				return a
			}
			if b.val == mask(w) {
				return b
			}
		}
		if a == b {
			return a
		}
	case OpBXor:
		if a.op == OpConst {
			a, b = b, a
		}
		if b.op == OpConst && b.val == 0 {
			return a
		}
		if a == b {
			return c.Const(w, 0)
		}
	case OpShl, OpLShr, OpAShr:
		if b.op == OpConst && b.val == 0 {
			return a
		}
		if a.op == OpConst && a.val == 0 {
			return a
		}
		if b.op == OpConst && b.val >= uint64(w) && op != OpAShr {
			return c.Const(w, 0)
		}
		// lshr(zext(x), k) with k >= width(x) = 0
		if op == OpLShr && b.op == OpConst && a.op == OpZExt && b.val >= uint64(a.a.w) {
			return c.Const(w, 0)
		}
	}
	return c.mk(Term{op: op, w: w, a: a, b: b})
}

func (c *TermCtx) Neg(a *Term) *Term {
	if a.op == OpConst {
		return c.Const(a.w, -a.val)
	}
	return c.mk(Term{op: OpNeg, w: a.w, a: a})
}

func (c *TermCtx) BNot(a *Term) *Term {
	if a.op == OpConst {
		return c.Const(a.w, ^a.val)
	}
	if a.op == OpBNot {
		return a.a
	}
	return c.mk(Term{op: OpBNot, w: a.w, a: a})
}

func (c *TermCtx) ZExt(a *Term, to uint8) *Term {
	if to == a.w {
		return a
	}
	if to < a.w {
		panic("ZExt shrink")
	}
	if a.op == OpConst {
		return c.Const(to, a.val)
	}
	if a.op == OpZExt {
		return c.ZExt(a.a, to)
	}
	if a.op == OpIte && a.b.op == OpConst && a.c.op == OpConst {
		return c.Ite(a.a, c.Const(to, a.b.val), c.Const(to, a.c.val))
	}
	return c.mk(Term{op: OpZExt, w: to, aux: uint16(to - a.w), a: a})
}

func (c *TermCtx) SExt(a *Term, to uint8) *Term {
	if to == a.w {
		return a
	}
	if to < a.w {
		panic("SExt shrink")
	}
	if a.op == OpConst {
		return c.Const(to, uint64(a.SVal()))
	}
	if a.op == OpZExt {
		// already non-negative
		return c.ZExt(a.a, to)
	}
	if a.op == OpSExt {
		return c.SExt(a.a, to)
	}
	return c.mk(Term{op: OpSExt, w: to, aux: uint16(to - a.w), a: a})
}

func (c *TermCtx) Extract(a *Term, hi, lo uint8) *Term {
	if lo == 0 && hi == a.w-1 {
		return a
	}
	nw := hi - lo + 1
	if a.op == OpConst {
		return c.Const(nw, a.val>>lo)
	}
	if (a.op == OpZExt || a.op == OpSExt) && lo == 0 {
		iw := a.a.w
		if nw == iw {
			return a.a
		}
		if nw < iw {
			return c.Extract(a.a, hi, 0)
		}
		if a.op == OpZExt {
			return c.ZExt(a.a, nw)
		}
		return c.SExt(a.a, nw)
	}
	if a.op == OpZExt && lo >= a.a.w {
		return c.Const(nw, 0)
	}
	if a.op == OpIte && a.b.op == OpConst && a.c.op == OpConst {
		return c.Ite(a.a, c.Const(nw, a.b.val>>lo), c.Const(nw, a.c.val>>lo))
	}
	if a.op == OpExtract {
		ilo := uint8(a.aux & 0xff)
		return c.Extract(a.a, hi+ilo, lo+ilo)
	}
	// trunc of bitwise/add/sub ops distributes (lo==0)
	if lo == 0 {
		switch a.op {
		case OpBAnd, OpBOr, OpBXor, OpAdd, OpSub:
			if (a.a.op == OpZExt || a.a.op == OpConst || a.a.op == OpSExt) && (a.b.op == OpZExt || a.b.op == OpConst || a.b.op == OpSExt) {
				return c.Bin(a.op, c.Extract(a.a, hi, 0), c.Extract(a.b, hi, 0))
			}
		}
	}
	return c.mk(Term{op: OpExtract, w: nw, aux: uint16(hi)<<8 | uint16(lo), a: a})
}

func (c *TermCtx) Concat(hi, lo *Term) *Term {
	if hi.op == OpConst && lo.op == OpConst {
		return c.Const(hi.w+lo.w, hi.val<<lo.w|lo.val)
	}
	if hi.op == OpConst && hi.val == 0 {
		return c.ZExt(lo, hi.w+lo.w)
	}
	return c.mk(Term{op: OpConcat, w: hi.w + lo.w, a: hi, b: lo})
}

// Trunc/extend to width to, with signedness of source.
func (c *TermCtx) Resize(a *Term, to uint8, signed bool) *Term {
	switch {
	case to == a.w:
		return a
	case to < a.w:
		return c.Extract(a, to-1, 0)
	case signed:
		return c.SExt(a, to)
	default:
		return c.ZExt(a, to)
	}
}

// ---------- SMT-LIB printing ----------

func sortStr(w uint8) string {
	if w == 0 {
		return "Bool"
	}
	return fmt.Sprintf("(_ BitVec %d)", w)
}

func constStr(t *Term) string {
	if t.w == 0 {
		if t.val != 0 {
			return "true"
		}
		return "false"
	}
	if t.w%4 == 0 {
		return fmt.Sprintf("#x%0*x", int(t.w/4), t.val)
	}
	return fmt.Sprintf("(_ bv%d %d)", t.val, t.w)
}

// ref returns the SMT name by which a term is referred to once defined.
func (t *Term) ref() string {
	switch t.op {
	case OpConst:
		return constStr(t)
	case OpVar:
		return t.name
	}
	return fmt.Sprintf("t%d", t.id)
}

// body prints the defining expression using refs of children.
func (t *Term) body() string {
	switch t.op {
	case OpNot, OpNeg, OpBNot:
		return fmt.Sprintf("(%s %s)", opNames[t.op], t.a.ref())
	case OpIte:
		return fmt.Sprintf("(ite %s %s %s)", t.a.ref(), t.b.ref(), t.c.ref())
	case OpZExt:
		return fmt.Sprintf("((_ zero_extend %d) %s)", t.aux, t.a.ref())
	case OpSExt:
		return fmt.Sprintf("((_ sign_extend %d) %s)", t.aux, t.a.ref())
	case OpExtract:
		return fmt.Sprintf("((_ extract %d %d) %s)", t.aux>>8, t.aux&0xff, t.a.ref())
	default:
		return fmt.Sprintf("(%s %s %s)", opNames[t.op], t.a.ref(), t.b.ref())
	}
}

// String renders a term fully (for diagnostics), depth-limited.
func (t *Term) String() string {
	var sb strings.Builder
	t.str(&sb, 6)
	return sb.String()
}

func (t *Term) str(sb *strings.Builder, depth int) {
	switch t.op {
	case OpConst:
		if t.w == 0 {
			sb.WriteString(constStr(t))
		} else {
			fmt.Fprintf(sb, "%d:%d", t.val, t.w)
		}
		return
	case OpVar:
		sb.WriteString(t.name)
		return
	}
	if depth == 0 {
		sb.WriteString("…")
		return
	}
	sb.WriteByte('(')
	switch t.op {
	case OpZExt:
		fmt.Fprintf(sb, "zext%d", t.aux)
	case OpSExt:
		fmt.Fprintf(sb, "sext%d", t.aux)
	case OpExtract:
		fmt.Fprintf(sb, "extract[%d:%d]", t.aux>>8, t.aux&0xff)
	default:
		sb.WriteString(opNames[t.op])
	}
	for _, x := range []*Term{t.a, t.b, t.c} {
		if x != nil {
			sb.WriteByte(' ')
			x.str(sb, depth-1)
		}
	}
	sb.WriteByte(')')
}

// ---------- concrete evaluation under a model ----------

type Model map[string]uint64

type evaluator struct {
	m    Model
	memo map[*Term]uint64
}

// defined reports whether every variable of t has a value in the model (a
// variable created after the model was produced evaluates to 0 by default,
// which need not satisfy the path condition).
func (e *evaluator) defined(t *Term) bool {
	seen := map[*Term]bool{}
	var walk func(t *Term) bool
	walk = func(t *Term) bool {
		if t == nil || seen[t] {
			return true
		}
		seen[t] = true
		if t.op == OpVar {
			_, ok := e.m[t.name]
			return ok
		}
		return walk(t.a) && walk(t.b) && walk(t.c)
	}
	return walk(t)
}

func newEvaluator(m Model) *evaluator {
	return &evaluator{m: m, memo: make(map[*Term]uint64)}
}

func (e *evaluator) eval(t *Term) uint64 {
	switch t.op {
	case OpConst:
		return t.val
	case OpVar:
		return e.m[t.name] & maskOrBool(t.w)
	}
	if v, ok := e.memo[t]; ok {
		return v
	}
	var r uint64
	switch t.op {
	case OpNot:
		r = e.eval(t.a) ^ 1
	case OpAnd:
		r = e.eval(t.a) & e.eval(t.b)
		if e.eval(t.a) == 0 {
			r = 0
		}
	case OpOr:
		r = e.eval(t.a) | e.eval(t.b)
	case OpEq:
		r = b2u(e.eval(t.a) == e.eval(t.b))
	case OpIte:
		if e.eval(t.a) != 0 {
			r = e.eval(t.b)
		} else {
			r = e.eval(t.c)
		}
	case OpUlt:
		r = b2u(e.eval(t.a) < e.eval(t.b))
	case OpUle:
		r = b2u(e.eval(t.a) <= e.eval(t.b))
	case OpSlt:
		r = b2u(sext(e.eval(t.a), t.a.w) < sext(e.eval(t.b), t.b.w))
	case OpSle:
		r = b2u(sext(e.eval(t.a), t.a.w) <= sext(e.eval(t.b), t.b.w))
	case OpNeg:
		r = (-e.eval(t.a)) & mask(t.w)
	case OpBNot:
		r = (^e.eval(t.a)) & mask(t.w)
	case OpZExt:
		r = e.eval(t.a)
	case OpSExt:
		r = uint64(sext(e.eval(t.a), t.a.w)) & mask(t.w)
	case OpExtract:
		r = (e.eval(t.a) >> (t.aux & 0xff)) & mask(t.w)
	case OpConcat:
		r = e.eval(t.a)<<t.b.w | e.eval(t.b)
	default:
		v, ok := foldBin(t.op, t.w, e.eval(t.a), e.eval(t.b))
		if !ok {
			panic("eval: unknown op")
		}
		r = v
	}
	e.memo[t] = r
	return r
}

func maskOrBool(w uint8) uint64 {
	if w == 0 {
		return 1
	}
	return mask(w)
}

func b2u(b bool) uint64 {
	if b {
		return 1
	}
	return 0
}
