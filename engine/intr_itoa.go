package main

import (
	"golang.org/x/tools/go/ssa"
)

// Decimal formatting of a *symbolic* integer. The library code slices lookup
// tables with the value (smallsString[i*2:i*2+2]), which would fork the path on
// every feasible value. The model forks only on the sign and on the number of
// digits and returns a string whose bytes are terms '0' + (u / 10^k) % 10,
// computed in the narrowest width that holds the digit count (16, 32 or 64
// bits) so that the divisions by constants stay cheap for the solver.
// Concrete values and other bases run the real code.

func (e *Engine) symDecimal(caller *frame, v *Term, signed bool) Str {
	c := e.ctx
	neg := false
	u := v
	if signed {
		if e.branch(c.Slt(v, c.Const(64, 0)), caller, nil) {
			neg = true
			u = c.Neg(v) // MinInt64 negates to itself = 2^63 as unsigned: correct digits
		}
	}
	// number of digits
	pow := uint64(10)
	digits := 1
	for digits < 20 {
		if e.branch(c.Ult(u, c.Const(64, pow)), caller, nil) {
			break
		}
		digits++
		if digits == 20 {
			break
		}
		pow *= 10
	}
	w := uint8(64)
	switch {
	case digits <= 4:
		w = 16
	case digits <= 9:
		w = 32
	}
	x := u
	if w < 64 {
		x = c.Extract(u, w-1, 0)
	}
	out := make([]*Term, 0, digits+1)
	if neg {
		out = append(out, c.Const(8, '-'))
	}
	p := uint64(1)
	for i := 1; i < digits; i++ {
		p *= 10
	}
	for k := digits - 1; k >= 0; k-- {
		d := x
		if p > 1 {
			d = c.Bin(OpUDiv, x, c.Const(w, p))
		}
		d = c.Bin(OpURem, d, c.Const(w, 10))
		d8 := c.Extract(d, 7, 0)
		out = append(out, c.Bin(OpAdd, d8, c.Const(8, '0')))
		p /= 10
	}
	return mkStr(out)
}

func init() {
	fmtInt := func(signed bool) intrinsicFn {
		return func(e *Engine, caller *frame, fn *ssa.Function, args []value) value {
			v := args[0].(*Term)
			base := args[1].(*Term)
			if v.IsConst() || !base.IsConst() || base.val != 10 {
				return e.callSSABody(caller, fn, args)
			}
			return e.symDecimal(caller, v, signed)
		}
	}
	appendInt := func(signed bool) intrinsicFn {
		return func(e *Engine, caller *frame, fn *ssa.Function, args []value) value {
			v := args[1].(*Term)
			base := args[2].(*Term)
			if v.IsConst() || !base.IsConst() || base.val != 10 {
				return e.callSSABody(caller, fn, args)
			}
			s := e.symDecimal(caller, v, signed)
			b, _ := args[0].([]value)
			r := make([]value, len(b), len(b)+s.Len())
			copy(r, b)
			for i := 0; i < s.Len(); i++ {
				r = append(r, e.strAt(s, i))
			}
			return r
		}
	}
	for _, pkg := range []string{"strconv", "internal/strconv"} {
		reg(pkg+".FormatInt", fmtInt(true))
		reg(pkg+".FormatUint", fmtInt(false))
		reg(pkg+".AppendInt", appendInt(true))
		reg(pkg+".AppendUint", appendInt(false))
		reg(pkg+".Itoa", func(e *Engine, caller *frame, fn *ssa.Function, args []value) value {
			v := args[0].(*Term)
			if v.IsConst() {
				return e.callSSABody(caller, fn, args)
			}
			return e.symDecimal(caller, v, true)
		})
	}
}
