package main

import (
	"go/types"

	"golang.org/x/tools/go/ssa"
)

// encoding/binary.Read/Write take a fast, reflection-free path only for the
// predeclared fixed-size types. A *named* integer type (filemode.FileMode,
// plumbing.ObjectType, ...) falls through to reflect, which the engine does
// not interpret. Values of named integer types have the same representation
// here as their underlying type, so the operand is re-wrapped with the
// underlying basic type (or pointer / slice of it) and the real function body
// then takes its fast path.
func rewrapBasic(t types.Type) (types.Type, bool) {
	switch u := t.(type) {
	case *types.Named, *types.Alias:
		if b, ok := u.Underlying().(*types.Basic); ok && b.Info()&(types.IsInteger|types.IsBoolean) != 0 {
			return types.Typ[b.Kind()], true
		}
	case *types.Pointer:
		if e, ok := rewrapBasic(u.Elem()); ok {
			return types.NewPointer(e), true
		}
	case *types.Slice:
		if e, ok := rewrapBasic(u.Elem()); ok {
			return types.NewSlice(e), true
		}
	}
	return nil, false
}

func init() {
	wrap := func(argIdx int) intrinsicFn {
		return func(e *Engine, caller *frame, fn *ssa.Function, args []value) value {
			if iv, ok := args[argIdx].(Iface); ok && iv.t != nil {
				if nt, ok := rewrapBasic(iv.t); ok {
					na := make([]value, len(args))
					copy(na, args)
					na[argIdx] = Iface{t: nt, v: iv.v}
					args = na
				}
			}
			return e.callSSABody(caller, fn, args)
		}
	}
	reg("encoding/binary.Read", wrap(2))
	reg("encoding/binary.Write", wrap(2))
}
