package main

// time.AfterFunc / Timer.Stop model: the engine records the callback; the
// harness decides when timers fire (verifrt.FireTimers). A stopped timer's
// callback may still run once if includeStopped is set — Go's Timer.Stop does
// not wait for a callback that has already started and is blocked on a lock.

import (
	"go/token"

	"golang.org/x/tools/go/ssa"
)

type timerRec struct {
	cell    *value
	fn      value
	stopped bool
	fired   bool
}

func init() {
	reg("time.AfterFunc", func(e *Engine, caller *frame, fn *ssa.Function, args []value) value {
		t := e.pkgType("time", "Timer")
		cell := new(value)
		*cell = e.zero(t)
		rec := &timerRec{cell: cell, fn: args[1]}
		e.timers = append(e.timers, rec)
		e.undo = append(e.undo, undoRec{f: func() { e.timers = e.timers[:len(e.timers)-1] }})
		return Ptr{p: cell}
	})
	reg("(*time.Timer).Stop", func(e *Engine, caller *frame, fn *ssa.Function, args []value) value {
		p := args[0].(Ptr)
		for _, r := range e.timers {
			if r.cell == p.p {
				was := !r.stopped && !r.fired
				old := *r
				e.undo = append(e.undo, undoRec{f: func() { *r = old }})
				r.stopped = true
				return e.ctx.Bool(was)
			}
		}
		panic(engineError{"Timer.Stop on a timer not created by time.AfterFunc"})
	})
	reg(verifrtPath+".FireTimers", func(e *Engine, caller *frame, fn *ssa.Function, args []value) value {
		incl := args[0].(*Term)
		if !incl.IsConst() {
			panic(engineError{"FireTimers: includeStopped must be concrete"})
		}
		n := 0
		for _, r := range append([]*timerRec(nil), e.timers...) {
			if r.fired || (r.stopped && incl.val == 0) {
				continue
			}
			old := *r
			e.undo = append(e.undo, undoRec{f: func() { *r = old }})
			r.fired = true
			e.call(caller, token.NoPos, r.fn, nil)
			n++
		}
		return e.int64c(int64(n))
	})
	reg(verifrtPath+".PendingTimers", func(e *Engine, caller *frame, fn *ssa.Function, args []value) value {
		n := 0
		for _, r := range e.timers {
			if !r.fired && !r.stopped {
				n++
			}
		}
		return e.int64c(int64(n))
	})
}
