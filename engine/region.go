package main

// Region merging (if-conversion at run time): at a symbolic If, the part of
// the function between the branch and its immediate post-dominator is explored
// over all of its local paths and the resulting SSA values (phis at the join),
// frame registers and memory writes are merged into if-then-else terms. This
// keeps per-byte classification loops from multiplying the paths of the caller.

import (
	"maps"

	"golang.org/x/tools/go/ssa"
)

type fnInfo struct {
	ipdom []*ssa.BasicBlock // immediate post-dominator per block index (nil = exit)
}

func (e *Engine) infoOf(fn *ssa.Function) *fnInfo {
	if fi, ok := e.fnInfos[fn]; ok {
		return fi
	}
	fi := &fnInfo{ipdom: computeIPDom(fn)}
	e.fnInfos[fn] = fi
	return fi
}

// computeIPDom: iterative post-dominator computation with a virtual exit.
func computeIPDom(fn *ssa.Function) []*ssa.BasicBlock {
	n := len(fn.Blocks)
	const exit = -1
	// reverse post-order on the reverse CFG, starting from exit nodes
	order := make([]int, 0, n)
	seen := make([]bool, n)
	var dfs func(b *ssa.BasicBlock)
	dfs = func(b *ssa.BasicBlock) {
		seen[b.Index] = true
		for _, p := range b.Preds {
			if !seen[p.Index] {
				dfs(p)
			}
		}
		order = append(order, b.Index)
	}
	for _, b := range fn.Blocks {
		if len(b.Succs) == 0 && !seen[b.Index] {
			dfs(b)
		}
	}
	// blocks that cannot reach an exit (infinite loops) stay unprocessed
	rpoNum := make([]int, n)
	for i := range rpoNum {
		rpoNum[i] = -1
	}
	for i := len(order) - 1; i >= 0; i-- {
		rpoNum[order[i]] = len(order) - 1 - i
	}
	const undef = -2
	idom := make([]int, n)
	for i := range idom {
		idom[i] = undef
	}
	for _, b := range fn.Blocks {
		if len(b.Succs) == 0 {
			idom[b.Index] = exit
		}
	}
	intersect := func(a, b int) int {
		for a != b {
			if a == exit || b == exit {
				return exit
			}
			for a != exit && b != exit && rpoNum[a] > rpoNum[b] {
				a = idom[a]
			}
			for a != exit && b != exit && rpoNum[b] > rpoNum[a] {
				b = idom[b]
			}
		}
		return a
	}
	changed := true
	for changed {
		changed = false
		for i := len(order) - 1; i >= 0; i-- {
			bi := order[i]
			b := fn.Blocks[bi]
			if len(b.Succs) == 0 {
				continue
			}
			newIdom := undef
			for _, s := range b.Succs {
				if idom[s.Index] == undef {
					continue
				}
				if newIdom == undef {
					newIdom = s.Index
				} else {
					newIdom = intersect(newIdom, s.Index)
				}
			}
			if newIdom != undef && idom[bi] != newIdom {
				idom[bi] = newIdom
				changed = true
			}
		}
	}
	res := make([]*ssa.BasicBlock, n)
	for i, d := range idom {
		if d >= 0 {
			res[i] = fn.Blocks[d]
		}
	}
	return res
}

type regionOut struct {
	env  map[ssa.Value]value
	phis []value
}

// tryMergeRegion attempts to merge the region from the If at the end of
// fr.block up to its immediate post-dominator. On success fr.block is the join
// block with its phis already evaluated.
func (e *Engine) tryMergeRegion(fr *frame, instr *ssa.If, cond *Term) bool {
	if fr.isInit || e.mergeDepth >= 4 {
		// (a function of the path state only, so re-execution is deterministic)
		return false
	}
	J := e.infoOf(fr.fn).ipdom[fr.block.Index]
	if J == nil {
		return false
	}
	ifBlock := fr.block
	savedPrev := fr.prevBlock
	savedDefers := fr.defers
	envBefore := fr.env
	var visitsBefore []int32
	if fr.visits != nil {
		visitsBefore = append([]int32(nil), fr.visits...)
	}
	nphi := 0
	for _, in := range J.Instrs {
		if _, ok := in.(*ssa.Phi); ok {
			nphi++
		} else {
			break
		}
	}
	restore := func() {
		fr.env = envBefore
		fr.block = ifBlock
		fr.prevBlock = savedPrev
		fr.defers = savedDefers
		fr.skipPhis = false
		if visitsBefore != nil {
			copy(fr.visits, visitsBefore)
		} else {
			fr.visits = nil
		}
	}
	results, ok := e.exploreLocal(func() value {
		restore()
		fr.env = maps.Clone(envBefore)
		succ := 1
		if e.branch(cond, fr, instr) {
			succ = 0
		}
		fr.jump(ifBlock.Succs[succ])
		e.runRegion(fr, J)
		if fr.defers != savedDefers {
			panic(mergeAbort{"defer inside region"})
		}
		out := &regionOut{env: fr.env}
		if fr.skipPhis {
			// a nested region merge ended exactly at J and has already
			// evaluated J's phis into the registers
			fr.skipPhis = false
			for _, in := range J.Instrs[:nphi] {
				out.phis = append(out.phis, fr.env[in.(*ssa.Phi)])
			}
		} else if nphi > 0 {
			pi := -1
			for i, p := range J.Preds {
				if p == fr.prevBlock {
					pi = i
				}
			}
			if pi < 0 {
				panic(mergeAbort{"join reached from an unknown predecessor"})
			}
			for _, in := range J.Instrs[:nphi] {
				out.phis = append(out.phis, fr.get(in.(*ssa.Phi).Edges[pi]))
			}
		}
		return out
	})
	restore()
	if !ok || len(results) == 0 {
		if ok && len(results) == 0 {
			panic(pathEnd{"all paths of merged region infeasible"})
		}
		return false
	}
	// merge phis and the registers defined on every local path
	outs := make([]*regionOut, len(results))
	for i, r := range results {
		outs[i] = r.val.(*regionOut)
	}
	last := len(outs) - 1
	mergedPhis := make([]value, nphi)
	for k := 0; k < nphi; k++ {
		acc := outs[last].phis[k]
		for i := last - 1; i >= 0; i-- {
			m, okm := e.mergeValue(results[i].cond, outs[i].phis[k], acc)
			if !okm {
						return false
			}
			acc = m
		}
		mergedPhis[k] = acc
	}
	newEnv := maps.Clone(envBefore)
	for key, v0 := range outs[last].env {
		if old, had := envBefore[key]; had && identical(old, v0) {
			same := true
			for i := 0; i < last; i++ {
				if vi, ok := outs[i].env[key]; !ok || !identical(vi, v0) {
					same = false
					break
				}
			}
			if same {
				continue
			}
		}
		acc := v0
		inAll := true
		for i := last - 1; i >= 0; i-- {
			vi, ok := outs[i].env[key]
			if !ok {
				inAll = false
				break
			}
			m, okm := e.mergeValue(results[i].cond, vi, acc)
			if !okm {
				// differs and cannot be merged: by SSA dominance such a
				// register is dead after the join unless it dominates it;
				// be conservative and give up.
						return false
			}
			acc = m
		}
		if inAll {
			newEnv[key] = acc
		} else {
			delete(newEnv, key)
		}
	}
	if !e.applyMergedWrites(results) {
		return false
	}
	fr.env = newEnv
	for k := 0; k < nphi; k++ {
		fr.env[J.Instrs[k].(*ssa.Phi)] = mergedPhis[k]
	}
	fr.prevBlock = ifBlock
	fr.block = J
	fr.skipPhis = true
	e.regionsMerged++
	return true
}

// runRegion executes fr until control reaches block J (not executing it).
func (e *Engine) runRegion(fr *frame, J *ssa.BasicBlock) {
	for fr.block != J {
		if fr.block == nil {
			panic(mergeAbort{"return inside region"})
		}
		nonPhis := e.executePhis(fr)
		for _, instr := range nonPhis {
			e.steps++
			if e.steps > e.cfg.MaxSteps {
				panic(engineError{"step budget exceeded"})
			}
			k := e.visitInstr(fr, instr)
			if k == kReturn {
				panic(mergeAbort{"return inside region"})
			}
			if k == kJump {
				break
			}
		}
	}
}
