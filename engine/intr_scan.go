package main

import (
	"fmt"
	"go/types"
	"strings"

	"golang.org/x/tools/go/ssa"
)

func init() {
	// fmt.Sscanf is reflection-driven; for a *concrete* input and a constant
	// format made only of %s verbs the engine runs the real fmt.Sscanf on the
	// concrete string and stores the results. Symbolic input is unsupported
	// (inconclusive), never approximated.
	reg("fmt.Sscanf", func(e *Engine, caller *frame, fn *ssa.Function, args []value) value {
		in, format := args[0].(Str), args[1].(Str)
		ops := args[2].([]value)
		if !in.IsConc() || !format.IsConc() {
			panic(engineError{"fmt.Sscanf on a symbolic string is not modelled"})
		}
		if strings.Count(format.s, "%") != strings.Count(format.s, "%s") || strings.Count(format.s, "%s") != len(ops) {
			panic(engineError{"fmt.Sscanf: only %s verbs are modelled: " + format.s})
		}
		outs := make([]string, len(ops))
		ptrs := make([]any, len(ops))
		for i := range outs {
			ptrs[i] = &outs[i]
		}
		n, err := fmt.Sscanf(in.s, format.s, ptrs...)
		for i := 0; i < n && i < len(ops); i++ {
			iv, ok := ops[i].(Iface)
			if !ok {
				panic(engineError{"fmt.Sscanf: operand is not an interface"})
			}
			pt, ok := iv.t.Underlying().(*types.Pointer)
			if !ok {
				panic(engineError{"fmt.Sscanf: operand is not a pointer"})
			}
			if b, ok := pt.Elem().Underlying().(*types.Basic); !ok || b.Kind() != types.String {
				panic(engineError{"fmt.Sscanf: operand is not a *string"})
			}
			e.rawStore(iv.v.(Ptr).p, Str{s: outs[i]})
		}
		var ev value = Iface{}
		if err != nil {
			t := e.pkgType("errors", "errorString")
			cell := new(value)
			*cell = Struct{Str{s: err.Error()}}
			ev = Iface{t: types.NewPointer(t), v: Ptr{p: cell}}
		}
		return Tuple{e.ctx.Const(64, uint64(n)), ev}
	})
}
