package main

// Path exploration by re-execution: every path is run from the harness entry
// following a recorded decision prefix; at each new symbolic branch the solver
// decides which sides are feasible and the alternative is queued.

import (
	"os"
	"encoding/binary"
	"fmt"
	"go/token"
	"go/types"
	"runtime/debug"
	"slices"
	"sort"
	"sync"
	"time"

	"golang.org/x/tools/go/ssa"
)

var qstat map[string]int
var qstatMu sync.Mutex

type Config struct {
	Unwind         int
	MaxDepth       int
	MaxSteps       int64
	MaxPaths       int
	MaxConcretize  int
	MaxSymIndex    int
	AllocLimit     int
	SolverTimeout  int // ms
	SolverKind     string
	Workers        int
	MapOrderAny    bool
	EagerGo        bool
	UnboundedChans bool
	Trace          bool
	PanicsOK       bool // uncaught panics are not violations (harness handles them)
	SkipInit       map[string]bool
	Known          map[string]*KnownFinding // active known-finding ids for this harness
	NoMerge        bool
	AutoMerge      bool
	MaxMergePaths  int
	MaxViolPerID   int
	Deadline       time.Time
	Params         map[string]int
	Havoc          map[string]bool
	RegionMerge    bool
}

type Decision struct {
	Taken bool
	Val   uint64
	Conc  bool
}

type workItem struct {
	decisions []Decision
	model     Model
}

type ndInfo struct {
	Name string `json:"name"`
	W    uint8  `json:"w"`
	Kind string `json:"kind"`
}

type Violation struct {
	Harness  string   `json:"harness"`
	Kind     string   `json:"kind"` // assert | panic | alloc
	ID       string   `json:"id"`
	Msg      string   `json:"msg"`
	Pos      string   `json:"pos"`
	Values   []uint64 `json:"values"`
	Kinds    []string `json:"kinds"`
	Known    []string `json:"known,omitempty"` // active known-finding classes on this path
	PathLen  int      `json:"path_len"`
	Replayed string   `json:"replayed,omitempty"`
}

type Shared struct {
	mu        sync.Mutex
	progMu    sync.Mutex
	queue     []workItem
	active    int
	cond      *sync.Cond
	paths     int
	pathsDone int
	aborted   bool

	violations   []*Violation
	violCount    map[string]int
	inconclusive map[string]int
	reached      map[string]*Violation // reach id -> witness (values)
	functions    map[string]bool
	intrinsics   map[string]bool
	obligations  int
	discharged   int
	trivial      int
	obSites      map[string]int
	samples      []string
	symPaths     int
	pathShapes   map[string]bool
	maxPathLen   int
	solver       solverStats
	initProblems map[string]string
	crossSample  []string // standalone scripts of sampled unsat obligations
	assumeEnds   int
	qhits        int
	steps        int64
}

type solverStats struct {
	Queries, Sat, Unsat, Unknown, Errors, Resets int
	Time                                         time.Duration
}

type Engine struct {
	id     int
	prog   *ssa.Program
	ctx    *TermCtx
	solver *Solver
	cfg    *Config
	shared *Shared

	globals      map[*ssa.Global]*value
	pkgInit      map[*ssa.Package]int
	consts       map[*ssa.Const]value
	methCache    map[methKey]*ssa.Function
	implCache    map[implKey]bool
	intrCache    map[*ssa.Function]intrinsicFn
	fakeAddr     map[*value]uint64
	nextAddr     uint64
	rtErrType    types.Type
	initProblems map[string]string
	seenFn       map[*ssa.Function]bool
	seenIntr     map[*ssa.Function]bool

	harness string
	entry   *ssa.Function

	// per-path state
	cur         *pathCtx
	nd          []ndInfo
	ndTerms     []*Term
	internalN   int
	undo        []undoRec
	steps       int64
	initMode    int
	activeKnown []string
	symbolic    bool
	mergeDepth  int
	qcache      map[string]qres
	qhits       int
	mergeFail   map[*ssa.Function]int
	ufCalls     []ufCall
	crcMemo     map[string]*Term
	lastClock   *Term
	ghost       map[string]value
	pipes       map[*value]*pipeState
	timers      []*timerRec
	threads     []*thread
	curThread   *thread
	threadPanic any
	killAck     chan struct{}
	locks       map[*value]*lockState

	fnInfos       map[*ssa.Function]*fnInfo
	regionFail    map[*ssa.If]int
	regionsMerged int
}

func NewEngine(id int, prog *ssa.Program, cfg *Config, shared *Shared) (*Engine, error) {
	s, err := NewSolver(cfg.SolverKind, cfg.SolverTimeout)
	if err != nil {
		return nil, err
	}
	e := &Engine{
		id: id, prog: prog, ctx: NewTermCtx(), solver: s, cfg: cfg, shared: shared,
		globals:   map[*ssa.Global]*value{},
		pkgInit:   map[*ssa.Package]int{},
		consts:    map[*ssa.Const]value{},
		methCache: map[methKey]*ssa.Function{},
		implCache: map[implKey]bool{},
		intrCache: map[*ssa.Function]intrinsicFn{},
		fakeAddr:  map[*value]uint64{},
		nextAddr:  0x10000,
		seenFn:    map[*ssa.Function]bool{},
		seenIntr:  map[*ssa.Function]bool{},
		qcache:    map[string]qres{},
		fnInfos:   map[*ssa.Function]*fnInfo{},
		regionFail: map[*ssa.If]int{},
	}
	e.rtErrType = types.Universe.Lookup("error").Type() // placeholder dynamic type for run-time errors
	if rp := prog.ImportedPackage("runtime"); rp != nil {
		if t := rp.Type("errorString"); t != nil {
			e.rtErrType = t.Type()
		}
	}
	return e, nil
}

func (e *Engine) noteFunction(fn *ssa.Function) {
	if e.initMode > 0 || e.seenFn[fn] {
		return
	}
	e.seenFn[fn] = true
}

func (e *Engine) noteIntrinsic(fn *ssa.Function) {
	if e.seenIntr[fn] {
		return
	}
	e.seenIntr[fn] = true
}

// ---------- nondeterministic inputs ----------

func (e *Engine) nondet(w uint8, kind string) *Term {
	if e.mergeDepth > 0 {
		// a merged region must not draw from the replay vector (its local
		// paths would number the draws differently): abandon the attempt now
		// rather than after exploring the whole region
		panic(mergeAbort{"nondet inside merged region"})
	}
	k := len(e.nd)
	name := fmt.Sprintf("nd%d_%d", k, w)
	e.nd = append(e.nd, ndInfo{Name: name, W: w, Kind: kind})
	t := e.ctx.Var(name, w)
	e.ndTerms = append(e.ndTerms, t)
	e.symbolic = true
	return t
}

// freshVar creates an engine-internal symbolic choice (not part of the
// harness's replay vector).
func (e *Engine) freshVar(tag string, w uint8) *Term {
	e.internalN++
	return e.ctx.Var(fmt.Sprintf("in%d_%s_%d", e.internalN, tag, w), w)
}

// ---------- path context ----------

// pathCtx is the exploration context of the current (sub-)path: the top-level
// path of a harness run, or one local path inside a merged region.
type qres struct {
	res   SatResult
	model Model
}

type pathCtx struct {
	parent    *pathCtx // enclosing context (merged regions)
	pc        []*Term
	model     Model
	ev        *evaluator
	prefix    []Decision
	decisions []Decision
	cursor    int
	local     *[]workItem // non-nil: merged region's private work list
	nlocal    *int
}

func (p *pathCtx) setModel(m Model) {
	if m == nil {
		m = Model{}
	}
	p.model = m
	p.ev = newEvaluator(m)
}

func (p *pathCtx) replaying() bool { return p.cursor < len(p.prefix) }

func (e *Engine) evalBool(t *Term) bool { return e.cur.ev.eval(t) != 0 }

func (e *Engine) check(extra *Term, wantModel bool) (SatResult, Model) {
	lits := e.fullPC()
	if extra != nil {
		lits = append(lits, extra)
	}
	// query cache: re-executed prefixes (merged regions in particular) ask
	// the same questions again; terms are hash-consed so ids identify them.
	ids := make([]int32, 0, len(lits))
	for _, l := range lits {
		if l.IsTrue() {
			continue
		}
		ids = append(ids, l.id)
	}
	slices.Sort(ids)
	ids = slices.Compact(ids)
	kb := make([]byte, 4*len(ids))
	for i, id := range ids {
		binary.LittleEndian.PutUint32(kb[4*i:], uint32(id))
	}
	key := string(kb)
	if r, ok := e.qcache[key]; ok {
		e.qhits++
		return r.res, r.model
	}
	res, m := e.solver.Check(lits, true)
	if res == Sat && m != nil {
		// self-check: the model must satisfy the query under the engine's own
		// term semantics (guards against encoder/evaluator mismatches)
		ev := newEvaluator(m)
		for _, l := range lits {
			if ev.eval(l) == 0 {
				if debugStack {
					fmt.Fprintf(os.Stderr, "MODEL MISMATCH on literal %s\nlast script:\n%s\n", trunc(l.String(), 400), trunc(e.solver.buf.String(), 6000))
				}
				e.inconclusive("solver model does not satisfy the query under the engine's evaluator")
				break
			}
		}
	}
	if len(e.qcache) > 2_000_000 {
		e.qcache = map[string]qres{}
	}
	e.qcache[key] = qres{res, m}
	return res, m
}

func (e *Engine) addPC(c *Term) {
	if c.IsTrue() {
		return
	}
	e.cur.pc = append(e.cur.pc, c)
}

func (e *Engine) fullPC() []*Term {
	n := 1
	for p := e.cur; p != nil; p = p.parent {
		n += len(p.pc)
	}
	r := make([]*Term, 0, n)
	for p := e.cur; p != nil; p = p.parent {
		r = append(r, p.pc...)
	}
	return r
}

func (e *Engine) inconclusive(why string) {
	e.shared.mu.Lock()
	e.shared.inconclusive[why]++
	e.shared.mu.Unlock()
}

// ---------- branching ----------

// branch decides a Boolean condition, forking the path if both sides are
// feasible. fr/instr are for diagnostics only.
func (e *Engine) branch(cond *Term, fr *frame, instr ssa.Instruction) bool {
	if cond.IsConst() {
		return cond.val != 0
	}
	if e.initMode > 0 {
		panic(engineError{"symbolic branch during package initialisation"})
	}
	p := e.cur
	// already decided syntactically by the path condition? (deterministic,
	// so it needs no recorded decision)
	ncond := e.ctx.Not(cond)
	for q := p; q != nil; q = q.parent {
		for _, l := range q.pc {
			if l == cond {
				return true
			}
			if l == ncond {
				return false
			}
		}
	}
	if p.cursor < len(p.prefix) {
		d := p.prefix[p.cursor]
		p.cursor++
		p.decisions = append(p.decisions, d)
		if d.Taken {
			p.pc = append(p.pc, cond)
		} else {
			p.pc = append(p.pc, e.ctx.Not(cond))
		}
		return d.Taken
	}
	mv := e.evalBool(cond)
	other := cond
	if mv {
		other = e.ctx.Not(cond)
	}
	if qstat != nil {
		k := "?"
		if fr != nil && instr != nil {
			k = fr.posOf(instr)
		} else if fr != nil {
			k = fr.fn.String()
		}
		if e.mergeDepth > 0 {
			k += " [merged]"
		}
		qstatMu.Lock()
		qstat[k]++
		qstatMu.Unlock()
	}
	res, m := e.check(other, true)
	switch res {
	case Sat:
		if qstat != nil && e.mergeDepth == 0 {
			k := "FORK ?"
			if fr != nil && instr != nil {
				k = "FORK " + fr.posOf(instr)
			} else if fr != nil {
				k = "FORK " + fr.fn.String()
			}
			qstatMu.Lock()
			qstat[k]++
			qstatMu.Unlock()
		}
		alt := make([]Decision, len(p.decisions)+1)
		copy(alt, p.decisions)
		alt[len(p.decisions)] = Decision{Taken: !mv}
		e.enqueue(workItem{decisions: alt, model: m})
	case Unknown:
		e.inconclusive("solver unknown on branch feasibility")
	}
	p.decisions = append(p.decisions, Decision{Taken: mv})
	if mv {
		p.pc = append(p.pc, cond)
	} else {
		p.pc = append(p.pc, e.ctx.Not(cond))
	}
	return mv
}

// concretize picks a concrete value for t, forking over all feasible values.
func (e *Engine) concretize(t *Term, why string) uint64 {
	if t.IsConst() {
		return t.val
	}
	if e.initMode > 0 {
		panic(engineError{"symbolic value during package initialisation"})
	}
	c := e.ctx
	p := e.cur
	tries := 0
	for {
		if p.cursor < len(p.prefix) {
			d := p.prefix[p.cursor]
			p.cursor++
			p.decisions = append(p.decisions, d)
			cond := c.Eq(t, c.Const(t.w, d.Val))
			if d.Taken {
				p.pc = append(p.pc, cond)
				return d.Val
			}
			p.pc = append(p.pc, c.Not(cond))
			tries++
			continue
		}
		tries++
		if tries > e.cfg.MaxConcretize {
			if debugStack {
				fmt.Fprintf(os.Stderr, "concretize overflow: term=%s cursor=%d prefixlen=%d mergeDepth=%d local=%v model[t]=%v inmodel=%v nd=%d\n", t.String(), p.cursor, len(p.prefix), e.mergeDepth, p.local != nil, p.model[t.name], p.ev.defined(t), len(e.nd))
				for i, d := range p.prefix {
					fmt.Fprintf(os.Stderr, "  [%d] taken=%v val=%d conc=%v\n", i, d.Taken, d.Val, d.Conc)
				}
			}
			panic(engineError{fmt.Sprintf("more than %d feasible values when concretising %s", e.cfg.MaxConcretize, why)})
		}
		v := p.ev.eval(t)
		cond := c.Eq(t, c.Const(t.w, v))
		if debugStack {
			fmt.Fprintf(os.Stderr, "concretize %s tries=%d value=%d term=%s\n", why, tries, v, trunc(t.String(), 300))
		}
		res, m := e.check(c.Not(cond), true)
		switch res {
		case Sat:
			if qstat != nil && e.mergeDepth == 0 {
				qstatMu.Lock()
				qstat["FORK concretize "+why]++
				qstatMu.Unlock()
			}
			alt := make([]Decision, len(p.decisions)+1)
			copy(alt, p.decisions)
			alt[len(p.decisions)] = Decision{Taken: false, Val: v, Conc: true}
			e.enqueue(workItem{decisions: alt, model: m})
		case Unknown:
			e.inconclusive("solver unknown on concretisation")
		}
		p.decisions = append(p.decisions, Decision{Taken: true, Val: v, Conc: true})
		p.pc = append(p.pc, cond)
		return v
	}
}

func (e *Engine) enqueue(it workItem) {
	if e.cur.local != nil {
		*e.cur.local = append(*e.cur.local, it)
		*e.cur.nlocal++
		if *e.cur.nlocal > e.cfg.MaxMergePaths {
			panic(mergeAbort{"too many paths in merged region"})
		}
		return
	}
	s := e.shared
	s.mu.Lock()
	s.queue = append(s.queue, it)
	s.paths++
	if s.paths > e.cfg.MaxPaths {
		s.inconclusive["path budget exceeded"]++
		s.aborted = true
	}
	s.cond.Signal()
	s.mu.Unlock()
}

// assume adds c to the path condition; ends the path if infeasible.
func (e *Engine) assume(c *Term) {
	if c.IsTrue() {
		return
	}
	if c.IsFalse() {
		panic(pathEnd{"assumption false"})
	}
	p := e.cur
	if p.replaying() {
		// an ancestor validated this assumption under the same path
		// condition and the item's model satisfies the whole prefix.
		p.pc = append(p.pc, c)
		return
	}
	p.pc = append(p.pc, c)
	if e.evalBool(c) {
		return
	}
	res, m := e.check(nil, true)
	switch res {
	case Sat:
		p.setModel(m)
	case Unsat:
		panic(pathEnd{"assumption infeasible"})
	default:
		e.inconclusive("solver unknown on assumption")
		panic(pathEnd{"assumption unknown"})
	}
}

// checkRT: a run-time check; if ok can be false the path forks into a
// target-level panic.
func (e *Engine) checkRT(fr *frame, instr ssa.Instruction, ok *Term, msg string) {
	if ok.IsTrue() {
		return
	}
	if e.branch(ok, fr, instr) {
		return
	}
	pos := "?"
	if fr != nil && instr != nil {
		pos = fr.posOf(instr)
	}
	panic(targetPanic{v: e.rtErr(msg), rt: true, msg: msg, pos: pos})
}

func (e *Engine) allocViolation(fr *frame, instr ssa.Instruction, n *Term) {
	e.recordViolation("alloc", "alloc-limit", fmt.Sprintf("allocation of %s elements exceeds limit %d", n, e.cfg.AllocLimit), fr.posOf(instr), nil)
	panic(pathEnd{"allocation limit"})
}

// ---------- obligations ----------

func (e *Engine) assertCond(c *Term, id string, pos string) {
	s := e.shared
	if e.mergeDepth > 0 {
		panic(mergeAbort{"Assert inside merged region"})
	}
	if e.cur.replaying() {
		// replaying: an ancestor path decided this obligation under the
		// identical path condition.
		e.addPC(c)
		return
	}
	s.mu.Lock()
	s.obligations++
	s.obSites[id]++
	s.mu.Unlock()
	if c.IsTrue() {
		s.mu.Lock()
		s.discharged++
		s.trivial++
		s.mu.Unlock()
		return
	}
	if c.IsFalse() {
		e.recordViolation("assert", id, "assertion is constant false on this path", pos, nil)
		panic(pathEnd{"assertion failed"})
	}
	if !e.evalBool(c) {
		e.recordViolation("assert", id, "assertion violated", pos, e.cur.model)
	} else {
		res, m := e.check(e.ctx.Not(c), true)
		switch res {
		case Unsat:
			s.mu.Lock()
			s.discharged++
			if len(s.samples) < 12 {
				s.samples = append(s.samples, fmt.Sprintf("%s/%s: pc[%d] ∧ ¬(%s) unsat", e.harness, id, len(e.cur.pc), trunc(c.String(), 160)))
			}
			if len(s.crossSample) < 40 && (s.obligations%7 == 1) {
				lits := append(e.fullPC(), e.ctx.Not(c))
				s.crossSample = append(s.crossSample, Standalone(lits))
			}
			s.mu.Unlock()
			return
		case Sat:
			e.recordViolation("assert", id, "assertion violated", pos, m)
		default:
			e.inconclusive("solver unknown on obligation " + id)
			return
		}
	}
	// continue on the side where the assertion holds
	e.assume(c)
}

func trunc(s string, n int) string {
	if len(s) > n {
		return s[:n] + "…"
	}
	return s
}

func (e *Engine) valuesUnder(m Model) ([]uint64, []string) {
	vals := make([]uint64, len(e.nd))
	kinds := make([]string, len(e.nd))
	for i, nd := range e.nd {
		if m != nil {
			vals[i] = m[nd.Name] & maskOrBool(nd.W)
		}
		kinds[i] = nd.Kind
	}
	return vals, kinds
}

func (e *Engine) recordViolation(kind, id, msg, pos string, m Model) {
	if e.mergeDepth > 0 {
		panic(mergeAbort{"violation inside merged region"})
	}
	if m == nil {
		m = e.cur.model
	}
	vals, kinds := e.valuesUnder(m)
	v := &Violation{Harness: e.harness, Kind: kind, ID: id, Msg: msg, Pos: pos, Values: vals, Kinds: kinds,
		Known: append([]string{}, e.activeKnown...), PathLen: len(e.cur.decisions)}
	s := e.shared
	s.mu.Lock()
	key := e.harness + "|" + kind + "|" + id + "|" + fmt.Sprint(v.Known)
	s.violCount[key]++
	if s.violCount[key] <= e.cfg.MaxViolPerID {
		s.violations = append(s.violations, v)
	}
	s.mu.Unlock()
}

func (e *Engine) reach(id string) {
	if e.mergeDepth > 0 {
		panic(mergeAbort{"Reach inside merged region"})
	}
	s := e.shared
	s.mu.Lock()
	_, seen := s.reached[id]
	s.mu.Unlock()
	if seen {
		return
	}
	// PC is satisfiable by construction; the current model (or the one the
	// queue item carries) is the witness.
	vals, kinds := e.valuesUnder(e.cur.model)
	s.mu.Lock()
	if _, seen := s.reached[id]; !seen {
		s.reached[id] = &Violation{Harness: e.harness, Kind: "reach", ID: id, Values: vals, Kinds: kinds}
	}
	s.mu.Unlock()
}

// known implements verifrt.Known(id, p): classify paths on which p holds as
// belonging to known finding id (only if the id is listed as active).
func (e *Engine) known(id string, p *Term) {
	if _, ok := e.cfg.Known[id]; !ok {
		return
	}
	if e.mergeDepth > 0 {
		panic(mergeAbort{"Known inside merged region"})
	}
	if p.IsConst() {
		if p.IsTrue() {
			e.activeKnown = append(e.activeKnown, id)
		}
		return
	}
	if e.branch(p, nil, nil) {
		e.activeKnown = append(e.activeKnown, id)
	}
}

// ---------- path driver ----------

func (e *Engine) undoAll() {
	for i := len(e.undo) - 1; i >= 0; i-- {
		u := e.undo[i]
		if u.f != nil {
			u.f()
		} else {
			*u.p = u.old
		}
	}
	e.undo = e.undo[:0]
}

func (e *Engine) runPath(it workItem) {
	e.cur = &pathCtx{prefix: it.decisions, decisions: make([]Decision, 0, len(it.decisions)+16)}
	e.cur.setModel(it.model)
	e.nd = e.nd[:0]
	e.ndTerms = e.ndTerms[:0]
	e.internalN = 0
	e.steps = 0
	e.activeKnown = nil
	e.symbolic = false
	e.mergeDepth = 0
	e.ufCalls = nil
	e.crcMemo = nil
	e.lastClock = nil
	e.pipes = nil
	e.timers = nil
	e.locks = nil
	if e.killAck == nil {
		e.killAck = make(chan struct{})
	}
	defer e.killThreads()
	e.ghost = nil
	defer e.undoAll()
	defer func() {
		s := e.shared
		s.mu.Lock()
		s.pathsDone++
		s.steps += e.steps
		if e.symbolic {
			s.symPaths++
		}
		if len(e.cur.decisions) > s.maxPathLen {
			s.maxPathLen = len(e.cur.decisions)
		}
		s.mu.Unlock()
	}()
	defer func() {
		r := recover()
		if r == nil {
			return
		}
		switch r := r.(type) {
		case pathEnd:
			if r.reason != "assertion failed" && r.reason != "allocation limit" {
				e.shared.mu.Lock()
				e.shared.assumeEnds++
				e.shared.mu.Unlock()
			}
		case engineError:
			e.inconclusive(r.msg)
		case targetPanic:
			if e.cfg.PanicsOK {
				return
			}
			e.recordViolation("panic", "uncaught-panic", r.msg, r.pos, nil)
		default:
			e.inconclusive(fmt.Sprintf("engine crash: %v\n%s", r, trunc(string(debug.Stack()), 3000)))
		}
	}()
	e.callSSA(nil, token.NoPos, e.entry, nil, nil)
	e.drainThreads()
	if e.cur.replaying() {
		if debugStack {
			fmt.Fprintf(os.Stderr, "REPLAY DIVERGENCE cursor=%d prefixlen=%d\n", e.cur.cursor, len(e.cur.prefix))
			for i, d := range e.cur.prefix {
				fmt.Fprintf(os.Stderr, "  [%d] taken=%v val=%d conc=%v\n", i, d.Taken, d.Val, d.Conc)
			}
		}
		e.inconclusive("replay divergence: path ended before its decision prefix was consumed")
	}
}

// worker loop
func (e *Engine) work() {
	s := e.shared
	for {
		s.mu.Lock()
		for len(s.queue) == 0 && s.active > 0 && !s.aborted {
			s.cond.Wait()
		}
		if s.aborted || (len(s.queue) == 0 && s.active == 0) {
			s.cond.Broadcast()
			s.mu.Unlock()
			return
		}
		it := s.queue[len(s.queue)-1]
		s.queue = s.queue[:len(s.queue)-1]
		s.active++
		s.mu.Unlock()

		if !e.cfg.Deadline.IsZero() && time.Now().After(e.cfg.Deadline) {
			s.mu.Lock()
			s.inconclusive["time budget exceeded"]++
			s.aborted = true
			s.active--
			s.cond.Broadcast()
			s.mu.Unlock()
			return
		}
		e.runPath(it)

		s.mu.Lock()
		s.active--
		if len(s.queue) == 0 && s.active == 0 {
			s.cond.Broadcast()
		}
		s.mu.Unlock()
	}
}

func (e *Engine) flushStats() {
	s := e.shared
	s.mu.Lock()
	defer s.mu.Unlock()
	for fn := range e.seenFn {
		s.functions[fn.String()] = true
	}
	for fn := range e.seenIntr {
		s.intrinsics[fn.String()] = true
	}
	s.solver.Queries += e.solver.Queries
	s.qhits += e.qhits
	s.solver.Sat += e.solver.SatN
	s.solver.Unsat += e.solver.UnsatN
	s.solver.Unknown += e.solver.UnknownN
	s.solver.Errors += e.solver.Errors
	s.solver.Resets += e.solver.Resets
	s.solver.Time += e.solver.Time
	for k, v := range e.initProblems {
		s.initProblems[k] = v
	}
}

func newShared() *Shared {
	s := &Shared{
		violCount:    map[string]int{},
		inconclusive: map[string]int{},
		reached:      map[string]*Violation{},
		functions:    map[string]bool{},
		intrinsics:   map[string]bool{},
		obSites:      map[string]int{},
		pathShapes:   map[string]bool{},
		initProblems: map[string]string{},
	}
	s.cond = sync.NewCond(&s.mu)
	return s
}

func sortedKeys[V any](m map[string]V) []string {
	ks := make([]string, 0, len(m))
	for k := range m {
		ks = append(ks, k)
	}
	sort.Strings(ks)
	return ks
}
