package main

import (
	"fmt"
	"go/constant"
	"go/token"
	"go/types"
	"math"
	"unicode/utf8"

	"golang.org/x/tools/go/ssa"
)

func constantBool(c *ssa.Const) bool     { return constant.BoolVal(c.Value) }
func constantString(c *ssa.Const) string { return constant.StringVal(c.Value) }

// ---------- binary operators ----------

func (e *Engine) binop(fr *frame, instr ssa.Instruction, op token.Token, tx, ty types.Type, x, y value) value {
	c := e.ctx
	switch xv := x.(type) {
	case *Term:
		yv, ok := y.(*Term)
		if !ok {
			panic(engineError{fmt.Sprintf("binop %v: %T vs %T at %s", op, x, y, fr.posOf(instr))})
		}
		signed := isSigned(tx)
		switch op {
		case token.ADD:
			return c.Bin(OpAdd, xv, yv)
		case token.SUB:
			return c.Bin(OpSub, xv, yv)
		case token.MUL:
			return c.Bin(OpMul, xv, yv)
		case token.QUO, token.REM:
			e.checkRT(fr, instr, c.Not(c.Eq(yv, c.Const(yv.w, 0))), "integer divide by zero")
			if signed {
				if op == token.QUO {
					return c.Bin(OpSDiv, xv, yv)
				}
				return c.Bin(OpSRem, xv, yv)
			}
			if op == token.QUO {
				return c.Bin(OpUDiv, xv, yv)
			}
			return c.Bin(OpURem, xv, yv)
		case token.AND:
			return c.Bin(OpBAnd, xv, yv)
		case token.OR:
			return c.Bin(OpBOr, xv, yv)
		case token.XOR:
			return c.Bin(OpBXor, xv, yv)
		case token.AND_NOT:
			return c.Bin(OpBAnd, xv, c.BNot(yv))
		case token.SHL, token.SHR:
			if isSigned(ty) {
				e.checkRT(fr, instr, c.Not(c.Slt(yv, c.Const(yv.w, 0))), "negative shift amount")
			}
			cnt := e.shiftCount(yv, xv.w)
			switch {
			case op == token.SHL:
				return c.Bin(OpShl, xv, cnt)
			case signed:
				return c.Bin(OpAShr, xv, cnt)
			default:
				return c.Bin(OpLShr, xv, cnt)
			}
		case token.EQL:
			return c.Eq(xv, yv)
		case token.NEQ:
			return c.Not(c.Eq(xv, yv))
		case token.LSS:
			if signed {
				return c.Slt(xv, yv)
			}
			return c.Ult(xv, yv)
		case token.LEQ:
			if signed {
				return c.Sle(xv, yv)
			}
			return c.Ule(xv, yv)
		case token.GTR:
			if signed {
				return c.Slt(yv, xv)
			}
			return c.Ult(yv, xv)
		case token.GEQ:
			if signed {
				return c.Sle(yv, xv)
			}
			return c.Ule(yv, xv)
		}
	case float64:
		yv := y.(float64)
		switch op {
		case token.ADD:
			return e.roundFloat(tx, xv+yv)
		case token.SUB:
			return e.roundFloat(tx, xv-yv)
		case token.MUL:
			return e.roundFloat(tx, xv*yv)
		case token.QUO:
			return e.roundFloat(tx, xv/yv)
		case token.EQL:
			return c.Bool(xv == yv)
		case token.NEQ:
			return c.Bool(xv != yv)
		case token.LSS:
			return c.Bool(xv < yv)
		case token.LEQ:
			return c.Bool(xv <= yv)
		case token.GTR:
			return c.Bool(xv > yv)
		case token.GEQ:
			return c.Bool(xv >= yv)
		}
	case Str:
		yv := y.(Str)
		switch op {
		case token.ADD:
			return e.strConcat(xv, yv)
		case token.EQL:
			return e.strEq(xv, yv)
		case token.NEQ:
			return c.Not(e.strEq(xv, yv))
		case token.LSS:
			return e.strLess(xv, yv)
		case token.GTR:
			return e.strLess(yv, xv)
		case token.LEQ:
			return c.Not(e.strLess(yv, xv))
		case token.GEQ:
			return c.Not(e.strLess(xv, yv))
		}
	}
	switch op {
	case token.EQL:
		return e.eqAny(tx, x, y)
	case token.NEQ:
		return c.Not(e.eqAny(tx, x, y))
	}
	panic(engineError{fmt.Sprintf("binop %v on %T at %s", op, x, fr.posOf(instr))})
}

// eqAny handles comparisons where one side may be a typed nil of
// slice/map/func/chan/pointer kind.
func (e *Engine) eqAny(t types.Type, x, y value) *Term {
	c := e.ctx
	switch xv := x.(type) {
	case []value:
		yv, _ := y.([]value)
		return c.Bool(xv == nil && yv == nil)
	case *Map:
		yv, _ := y.(*Map)
		return c.Bool(xv == yv)
	case Poison:
		panic(engineError{"use of value from failed package initialiser: " + xv.why})
	}
	return e.equals(t, x, y)
}

func (e *Engine) roundFloat(t types.Type, f float64) float64 {
	if b, ok := t.Underlying().(*types.Basic); ok && b.Kind() == types.Float32 {
		return float64(float32(f))
	}
	return f
}

// shiftCount converts a shift count of any width to width w, saturating.
func (e *Engine) shiftCount(y *Term, w uint8) *Term {
	c := e.ctx
	switch {
	case y.w == w:
		return y
	case y.w < w:
		return c.ZExt(y, w)
	default:
		big := c.Ule(c.Const(y.w, uint64(w)), y)
		return c.Ite(big, c.Const(w, uint64(w)), c.Extract(y, w-1, 0))
	}
}

// ---------- unary operators ----------

func (e *Engine) unop(fr *frame, instr *ssa.UnOp, x value) value {
	c := e.ctx
	switch instr.Op {
	case token.ARROW:
		return e.chanRecv(fr, instr, x.(*Chan), instr.CommaOk)
	case token.MUL:
		return e.loadPtr(fr, instr, x)
	case token.SUB:
		switch x := x.(type) {
		case *Term:
			return c.Neg(x)
		case float64:
			return -x
		}
	case token.NOT:
		return c.Not(x.(*Term))
	case token.XOR:
		return c.BNot(x.(*Term))
	}
	panic(engineError{fmt.Sprintf("unop %v on %T", instr.Op, x)})
}

// ---------- conversions ----------

func (e *Engine) conv(fr *frame, instr ssa.Instruction, tdst, tsrc types.Type, x value) value {
	c := e.ctx
	ud := tdst.Underlying()
	us := tsrc.Underlying()
	if _, ok := x.(Poison); ok {
		panic(engineError{"use of poisoned value"})
	}
	switch ud := ud.(type) {
	case *types.Basic:
		if ud.Kind() == types.UnsafePointer {
			switch x := x.(type) {
			case Ptr, SymPtr:
				return x
			case *Term:
				if x.IsConst() && x.val == 0 {
					return Ptr{}
				}
				panic(engineError{"uintptr -> unsafe.Pointer at " + fr.posOf(instr)})
			}
		}
		if w, _, ok := intWidth(ud); ok && w > 0 {
			switch x := x.(type) {
			case *Term:
				return c.Resize(x, w, isSigned(tsrc))
			case float64:
				if isSigned(tdst) {
					return c.Const(w, uint64(int64(x)))
				}
				return c.Const(w, uint64(x))
			case Ptr:
				if ud.Kind() == types.Uintptr {
					return e.ptrToUintptr(x)
				}
			}
		}
		if ud.Info()&types.IsFloat != 0 {
			switch x := x.(type) {
			case float64:
				return e.roundFloat(tdst, x)
			case *Term:
				if !x.IsConst() {
					panic(engineError{"symbolic int -> float at " + fr.posOf(instr)})
				}
				if isSigned(tsrc) {
					return e.roundFloat(tdst, float64(x.SVal()))
				}
				return e.roundFloat(tdst, float64(x.val))
			}
		}
		if ud.Info()&types.IsString != 0 {
			switch x := x.(type) {
			case Str:
				return x
			case *Term:
				return e.runeToString(fr, x, isSigned(tsrc))
			case []value:
				// []byte or []rune
				et := us.(*types.Slice).Elem().Underlying().(*types.Basic)
				if et.Kind() == types.Uint8 {
					ts := make([]*Term, len(x))
					for i, b := range x {
						ts[i] = b.(*Term)
					}
					return mkStr(ts)
				}
				// []rune -> string
				var out Str
				for _, r := range x {
					out = e.strConcat(out, e.runeToString(fr, r.(*Term), true))
				}
				return out
			}
		}
	case *types.Slice:
		if s, ok := x.(Str); ok {
			et := ud.Elem().Underlying().(*types.Basic)
			if et.Kind() == types.Uint8 {
				r := make([]value, s.Len())
				for i := range r {
					r[i] = e.strAt(s, i)
				}
				return r
			}
			// string -> []rune
			r := []value{}
			it := &strIter{s: s}
			for {
				tup := it.next(e, fr)
				if tup[0].(*Term).IsFalse() {
					break
				}
				r = append(r, tup[2])
			}
			return r
		}
		return x
	case *types.Pointer:
		// unsafe.Pointer -> *T or *T -> *U
		return x
	case *types.Array:
		// slice -> array conversion
		if s, ok := x.([]value); ok {
			n := int(ud.Len())
			if len(s) < n {
				panic(targetPanic{v: e.rtErr("cannot convert slice to array"), rt: true, msg: "slice to array: too short", pos: fr.posOf(instr)})
			}
			return copyVal(Array(s[:n]))
		}
		return x
	}
	// identical underlying kinds (named <-> unnamed etc.)
	return x
}

func (e *Engine) ptrToUintptr(p Ptr) value {
	if p.p == nil {
		return e.ctx.Const(64, 0)
	}
	// a stable, non-zero fake address
	if a, ok := e.fakeAddr[p.p]; ok {
		return e.ctx.Const(64, a)
	}
	e.nextAddr += 64
	e.fakeAddr[p.p] = e.nextAddr
	return e.ctx.Const(64, e.nextAddr)
}

func (e *Engine) runeToString(fr *frame, r *Term, signed bool) Str {
	if r.IsConst() {
		var rv rune
		if signed {
			v := r.SVal()
			if v < 0 || v > 0x10FFFF {
				rv = utf8.RuneError
			} else {
				rv = rune(v)
			}
		} else {
			if r.val > 0x10FFFF {
				rv = utf8.RuneError
			} else {
				rv = rune(r.val)
			}
		}
		return Str{s: string(rv)}
	}
	// symbolic: run the real utf8.AppendRune
	f := e.stdFunc("unicode/utf8", "AppendRune")
	r32 := e.ctx.Resize(r, 32, signed)
	if r.w > 32 {
		// out-of-range wide values become RuneError
		inRange := e.ctx.Ule(r, e.ctx.Const(r.w, 0x10FFFF))
		r32 = e.ctx.Ite(inRange, r32, e.ctx.Const(32, uint64(utf8.RuneError)))
	}
	res := e.callSSA(fr, token.NoPos, f, []value{[]value(nil), r32}, nil).([]value)
	ts := make([]*Term, len(res))
	for i, b := range res {
		ts[i] = b.(*Term)
	}
	return mkStr(ts)
}

func (e *Engine) stdFunc(pkg, name string) *ssa.Function {
	p := e.prog.ImportedPackage(pkg)
	if p == nil {
		panic(engineError{"package not loaded: " + pkg})
	}
	f := p.Func(name)
	if f == nil {
		panic(engineError{"function not found: " + pkg + "." + name})
	}
	return f
}

// ---------- indexing and slicing ----------

// concInt concretises a (possibly symbolic) integer, forking per feasible value.
func (e *Engine) concInt(t *Term, why string) int64 {
	if t.IsConst() {
		return t.SVal()
	}
	return sext(e.concretize(t, why), t.w)
}

func (e *Engine) checkIndex(fr *frame, instr ssa.Instruction, idx *Term, n int) {
	c := e.ctx
	idx64 := e.toIdx64(instr, idx)
	e.checkRT(fr, instr, c.Ult(idx64, c.Const(64, uint64(n))), "index out of range")
}

// toIdx64 widens an index to 64 bits using the signedness of its static type.
func (e *Engine) toIdx64(instr ssa.Instruction, idx *Term) *Term {
	if idx.w == 64 {
		return idx
	}
	signed := true
	switch in := instr.(type) {
	case *ssa.IndexAddr:
		signed = isSigned(in.Index.Type())
	case *ssa.Index:
		signed = isSigned(in.Index.Type())
	}
	return e.ctx.Resize(idx, 64, signed)
}

func (e *Engine) indexAddr(fr *frame, instr *ssa.IndexAddr, x value, idx *Term) value {
	var arr []value
	switch x := x.(type) {
	case []value:
		arr = x
	case Ptr:
		if x.p == nil {
			e.nilDeref(fr, instr)
		}
		a, ok := (*x.p).(Array)
		if !ok {
			panic(engineError{fmt.Sprintf("IndexAddr: cell holds %T at %s", *x.p, fr.posOf(instr))})
		}
		arr = a
	default:
		panic(engineError{fmt.Sprintf("IndexAddr on %T at %s", x, fr.posOf(instr))})
	}
	e.checkIndex(fr, instr, idx, len(arr))
	if idx.IsConst() {
		i := int(idx.val)
		return Ptr{p: &arr[i], arr: arr[i:]}
	}
	idx64 := e.toIdx64(instr, idx)
	if e.symIndexable(arr) {
		return SymPtr{arr: arr, idx: idx64}
	}
	i := int(e.concretize(idx64, "index"))
	return Ptr{p: &arr[i], arr: arr[i:]}
}

func (e *Engine) symIndexable(arr []value) bool {
	if len(arr) == 0 || len(arr) > e.cfg.MaxSymIndex {
		return false
	}
	_, ok := arr[0].(*Term)
	return ok
}

func (e *Engine) index(fr *frame, instr *ssa.Index, x value, idx *Term) value {
	switch x := x.(type) {
	case Array:
		e.checkIndex(fr, instr, idx, len(x))
		if idx.IsConst() {
			return copyVal(x[idx.val])
		}
		idx64 := e.toIdx64(instr, idx)
		if e.symIndexable(x) {
			return e.symLoad(SymPtr{arr: x, idx: idx64})
		}
		return copyVal(x[e.concretize(idx64, "index")])
	case Str:
		e.checkIndex(fr, instr, idx, x.Len())
		if idx.IsConst() {
			return e.strAt(x, int(idx.val))
		}
		return e.symStrAt(x, e.toIdx64(instr, idx))
	}
	panic(engineError{fmt.Sprintf("Index on %T", x)})
}

func (e *Engine) symStrAt(s Str, idx *Term) *Term {
	c := e.ctx
	n := s.Len()
	r := e.strAt(s, n-1)
	for i := n - 2; i >= 0; i-- {
		r = c.Ite(c.Eq(idx, c.Const(64, uint64(i))), e.strAt(s, i), r)
	}
	return r
}

func (e *Engine) sliceOp(fr *frame, instr *ssa.Slice, x, lo, hi, max value) value {
	var length, capacity int
	var arr []value
	var str Str
	isStr := false
	switch x := x.(type) {
	case Str:
		isStr = true
		str = x
		length = x.Len()
		capacity = length
	case []value:
		arr = x
		length = len(x)
		capacity = cap(x)
	case Ptr:
		if x.p == nil {
			e.nilDeref(fr, instr)
		}
		a := (*x.p).(Array)
		arr = a
		length = len(a)
		capacity = len(a)
	default:
		panic(engineError{fmt.Sprintf("slice of %T", x)})
	}
	c := e.ctx
	get := func(v value, def int) *Term {
		if v == nil {
			return c.Const(64, uint64(def))
		}
		t := v.(*Term)
		return c.Resize(t, 64, true)
	}
	l := get(lo, 0)
	hdef := length
	h := get(hi, hdef)
	m := get(max, capacity)
	// bounds: 0 <= l <= h <= m <= cap
	ok := c.And(c.Ule(l, h), c.And(c.Ule(h, m), c.Ule(m, c.Const(64, uint64(capacity)))))
	e.checkRT(fr, instr, ok, "slice bounds out of range")
	li := int(e.concInt(l, "slice low"))
	hiI := int(e.concInt(h, "slice high"))
	mi := int(e.concInt(m, "slice max"))
	if isStr {
		return e.strSlice(str, li, hiI)
	}
	if arr == nil {
		return []value(nil)
	}
	return arr[li:hiI:mi]
}

// allocSize concretises an allocation size with the allocation obligation.
func (e *Engine) allocSize(fr *frame, instr ssa.Instruction, n *Term) int {
	c := e.ctx
	n64 := c.Resize(n, 64, true)
	e.checkRT(fr, instr, c.Sle(c.Const(64, 0), n64), "makeslice: len out of range")
	if !n64.IsConst() {
		lim := c.Const(64, uint64(e.cfg.AllocLimit))
		if !e.branch(c.Sle(n64, lim), fr, instr) {
			e.allocViolation(fr, instr, n64)
		}
	} else if n64.SVal() > int64(e.cfg.AllocLimit) {
		e.allocViolation(fr, instr, n64)
	}
	return int(e.concInt(n64, "allocation size"))
}

func (e *Engine) makeSlice(tElt types.Type, n, cn int) []value {
	s := make([]value, cn)
	switch tElt.Underlying().(type) {
	case *types.Struct, *types.Array:
		for i := range s {
			s[i] = e.zero(tElt)
		}
	default:
		z := e.zero(tElt)
		for i := range s {
			s[i] = z
		}
	}
	return s[:n]
}

// ---------- maps ----------

func (e *Engine) mapFind(m *Map, key value) *mapEntry {
	if m == nil {
		return nil
	}
	ks, conc := keyString(key)
	if conc {
		if en, ok := m.index[ks]; ok && !en.dead {
			return en
		}
		if m.nsym == 0 {
			return nil
		}
	}
	for _, en := range m.entries {
		if en.dead {
			continue
		}
		if conc && en.conc {
			continue
		}
		eq := e.equals(m.keyT, en.key, key)
		if e.branch(eq, nil, nil) {
			return en
		}
	}
	return nil
}

func (e *Engine) mapInsert(m *Map, key, val value) {
	if en := e.mapFind(m, key); en != nil {
		old := en.val
		en.val = val
		if e.initMode == 0 {
			e.undo = append(e.undo, undoRec{f: func() { en.val = old }})
		}
		return
	}
	ks, conc := keyString(key)
	en := &mapEntry{key: key, val: val, ckey: ks, conc: conc}
	m.entries = append(m.entries, en)
	m.live++
	if conc {
		m.index[ks] = en
	} else {
		m.nsym++
	}
	if e.initMode == 0 {
		e.undo = append(e.undo, undoRec{f: func() {
			m.entries = m.entries[:len(m.entries)-1]
			m.live--
			if conc {
				delete(m.index, ks)
			} else {
				m.nsym--
			}
		}})
	}
}

func (e *Engine) mapDelete(m *Map, key value) {
	en := e.mapFind(m, key)
	if en == nil {
		return
	}
	en.dead = true
	m.live--
	if en.conc {
		delete(m.index, en.ckey)
	} else {
		m.nsym--
	}
	if e.initMode == 0 {
		e.undo = append(e.undo, undoRec{f: func() {
			en.dead = false
			m.live++
			if en.conc {
				m.index[en.ckey] = en
			} else {
				m.nsym++
			}
		}})
	}
}

func (e *Engine) lookup(fr *frame, instr *ssa.Lookup, x, idx value) value {
	switch x := x.(type) {
	case *Map:
		var v value
		ok := false
		if en := e.mapFind(x, idx); en != nil {
			v = copyVal(en.val)
			ok = true
		} else {
			v = e.zero(instr.X.Type().Underlying().(*types.Map).Elem())
		}
		if instr.CommaOk {
			return Tuple{v, e.ctx.Bool(ok)}
		}
		return v
	case Str:
		it := idx.(*Term)
		e.checkRT(fr, instr, e.ctx.Ult(e.ctx.Resize(it, 64, isSigned(instr.Index.Type())), e.ctx.Const(64, uint64(x.Len()))), "index out of range")
		if it.IsConst() {
			return e.strAt(x, int(it.val))
		}
		return e.symStrAt(x, e.ctx.Resize(it, 64, isSigned(instr.Index.Type())))
	}
	panic(engineError{fmt.Sprintf("lookup on %T", x)})
}

// ---------- range ----------

type iter interface {
	next(e *Engine, fr *frame) Tuple
}

type strIter struct {
	s   Str
	pos int
}

func (it *strIter) next(e *Engine, fr *frame) Tuple {
	c := e.ctx
	if it.pos >= it.s.Len() {
		return Tuple{c.fls, c.Const(64, 0), c.Const(32, 0)}
	}
	start := it.pos
	if it.s.sym == nil {
		r, sz := utf8.DecodeRuneInString(it.s.s[it.pos:])
		it.pos += sz
		return Tuple{c.tru, c.Const(64, uint64(start)), c.Const(32, uint64(r))}
	}
	b := it.s.sym[it.pos]
	if b.IsConst() && b.val < 0x80 {
		it.pos++
		return Tuple{c.tru, c.Const(64, uint64(start)), c.Const(32, b.val)}
	}
	if !b.IsConst() && e.branch(c.Ult(b, c.Const(8, 0x80)), fr, nil) {
		it.pos++
		return Tuple{c.tru, c.Const(64, uint64(start)), c.ZExt(b, 32)}
	}
	f := e.stdFunc("unicode/utf8", "DecodeRuneInString")
	res := e.callSSA(fr, token.NoPos, f, []value{e.strSlice(it.s, it.pos, it.s.Len())}, nil).(Tuple)
	sz := e.concInt(res[1].(*Term), "rune size")
	it.pos += int(sz)
	return Tuple{c.tru, c.Const(64, uint64(start)), res[0]}
}

type mapIter struct {
	m   *Map
	ens []*mapEntry
	pos int
}

func (it *mapIter) next(e *Engine, fr *frame) Tuple {
	c := e.ctx
	for it.pos < len(it.ens) {
		en := it.ens[it.pos]
		it.pos++
		if en.dead {
			continue
		}
		return Tuple{c.tru, en.key, copyVal(en.val)}
	}
	return Tuple{c.fls, nil, nil}
}

func (e *Engine) rangeIter(fr *frame, instr *ssa.Range, x value) iter {
	switch x := x.(type) {
	case Str:
		return &strIter{s: x}
	case *Map:
		if x == nil {
			return &mapIter{}
		}
		ens := make([]*mapEntry, len(x.entries))
		copy(ens, x.entries)
		if e.cfg.MapOrderAny && len(ens) > 1 && e.initMode == 0 {
			// solver-chosen rotation of the iteration order
			k := e.freshVar("maporder", 8)
			e.assume(e.ctx.Ult(k, e.ctx.Const(8, uint64(len(ens)))))
			r := int(e.concretize(k, "map order"))
			ens = append(ens[r:], ens[:r]...)
		}
		return &mapIter{m: x, ens: ens}
	}
	panic(engineError{fmt.Sprintf("range over %T", x)})
}

// ---------- builtins ----------

func (e *Engine) callBuiltin(caller *frame, callpos token.Pos, fn *ssa.Builtin, args []value) value {
	c := e.ctx
	switch fn.Name() {
	case "append":
		if len(args) == 1 {
			return args[0]
		}
		var add []value
		switch y := args[1].(type) {
		case Str:
			add = make([]value, y.Len())
			for i := range add {
				add[i] = e.strAt(y, i)
			}
		case []value:
			add = y
		}
		x := args[0].([]value)
		if len(add) == 0 {
			return x
		}
		n := len(x)
		if n+len(add) <= cap(x) {
			r := x[:n+len(add)]
			for i, v := range add {
				e.rawStore(&r[n+i], copyVal(v))
			}
			return r
		}
		// grow: Go's growth policy is approximated (cap doubles); programs
		// must not depend on exact capacity.
		nc := 2 * cap(x)
		if nc < n+len(add) {
			nc = n + len(add)
		}
		if nc < 8 {
			nc = 8
		}
		r := make([]value, n+len(add), nc)
		for i := range x {
			r[i] = copyVal(x[i])
		}
		for i, v := range add {
			r[n+i] = copyVal(v)
		}
		// zero the spare capacity
		if nc > n+len(add) {
			elemT := fn.Type().(*types.Signature).Params().At(0).Type().Underlying().(*types.Slice).Elem()
			spare := r[n+len(add) : nc]
			switch elemT.Underlying().(type) {
			case *types.Struct, *types.Array:
				for i := range spare {
					spare[i] = e.zero(elemT)
				}
			default:
				z := e.zero(elemT)
				for i := range spare {
					spare[i] = z
				}
			}
		}
		return r

	case "copy":
		dst := args[0].([]value)
		var n int
		switch src := args[1].(type) {
		case Str:
			n = min(len(dst), src.Len())
			for i := 0; i < n; i++ {
				e.rawStore(&dst[i], e.strAt(src, i))
			}
		case []value:
			n = min(len(dst), len(src))
			if n > 0 && &dst[0] == &src[0] {
				return c.Const(64, uint64(n))
			}
			// memmove semantics
			tmp := make([]value, n)
			for i := 0; i < n; i++ {
				tmp[i] = copyVal(src[i])
			}
			for i := 0; i < n; i++ {
				e.rawStore(&dst[i], tmp[i])
			}
		}
		return c.Const(64, uint64(n))

	case "close":
		ch := args[0].(*Chan)
		e.chanClose(caller, ch)
		return nil

	case "delete":
		if m := args[0].(*Map); m != nil {
			e.mapDelete(m, args[1])
		}
		return nil

	case "print", "println":
		return nil

	case "len":
		switch x := args[0].(type) {
		case Str:
			return c.Const(64, uint64(x.Len()))
		case Array:
			return c.Const(64, uint64(len(x)))
		case Ptr:
			if x.p == nil {
				// len of nil *array is the array length; get from type
				t := fn.Type().(*types.Signature).Params().At(0).Type()
				return c.Const(64, uint64(mustDeref(t).Underlying().(*types.Array).Len()))
			}
			return c.Const(64, uint64(len((*x.p).(Array))))
		case []value:
			return c.Const(64, uint64(len(x)))
		case *Map:
			if x == nil {
				return c.Const(64, 0)
			}
			return c.Const(64, uint64(x.live))
		case *Chan:
			if x == nil {
				return c.Const(64, 0)
			}
			return c.Const(64, uint64(len(x.buf)))
		}
		panic(engineError{fmt.Sprintf("len of %T", args[0])})

	case "cap":
		switch x := args[0].(type) {
		case Array:
			return c.Const(64, uint64(len(x)))
		case Ptr:
			if x.p == nil {
				t := fn.Type().(*types.Signature).Params().At(0).Type()
				return c.Const(64, uint64(mustDeref(t).Underlying().(*types.Array).Len()))
			}
			return c.Const(64, uint64(len((*x.p).(Array))))
		case []value:
			return c.Const(64, uint64(cap(x)))
		case *Chan:
			if x == nil {
				return c.Const(64, 0)
			}
			return c.Const(64, uint64(x.cap))
		}
		panic(engineError{fmt.Sprintf("cap of %T", args[0])})

	case "min", "max":
		t := fn.Type().(*types.Signature).Params().At(0).Type()
		r := args[0]
		for _, a := range args[1:] {
			r = e.minmax(fn.Name() == "min", t, r, a)
		}
		return r

	case "clear":
		switch x := args[0].(type) {
		case *Map:
			if x != nil {
				for _, en := range x.entries {
					if !en.dead {
						en := en
						en.dead = true
						x.live--
						if en.conc {
							delete(x.index, en.ckey)
						} else {
							x.nsym--
						}
						if e.initMode == 0 {
							e.undo = append(e.undo, undoRec{f: func() {
								en.dead = false
								x.live++
								if en.conc {
									x.index[en.ckey] = en
								} else {
									x.nsym++
								}
							}})
						}
					}
				}
			}
		case []value:
			elemT := fn.Type().(*types.Signature).Params().At(0).Type().Underlying().(*types.Slice).Elem()
			for i := range x {
				e.store(elemT, &x[i], e.zero(elemT))
			}
		}
		return nil

	case "panic":
		panic(targetPanic{v: args[0], msg: "panic(" + e.describe(args[0]) + ")", pos: e.pos(callpos)})

	case "recover":
		return e.doRecover(caller)

	case "ssa:wrapnilchk":
		recv := args[0]
		if p, ok := recv.(Ptr); ok && p.p == nil {
			panic(targetPanic{v: e.rtErr("value method called using nil pointer"), rt: true, msg: "value method called on nil pointer", pos: e.pos(callpos)})
		}
		return recv

	case "ssa:deferstack":
		return &caller.defers

	case "real", "imag", "complex":
		panic(engineError{"complex numbers unsupported"})
	}
	if r, ok := e.unsafeBuiltin(caller, fn.Name(), args); ok {
		return r
	}
	panic(engineError{"unknown built-in: " + fn.Name()})
}

func (e *Engine) minmax(isMin bool, t types.Type, x, y value) value {
	c := e.ctx
	switch xv := x.(type) {
	case *Term:
		yv := y.(*Term)
		var lt *Term
		if isSigned(t) {
			lt = c.Slt(xv, yv)
		} else {
			lt = c.Ult(xv, yv)
		}
		if isMin {
			return c.Ite(lt, xv, yv)
		}
		return c.Ite(lt, yv, xv)
	case float64:
		yv := y.(float64)
		if isMin {
			return math.Min(xv, yv)
		}
		return math.Max(xv, yv)
	case Str:
		yv := y.(Str)
		lt := e.strLess(xv, yv)
		if !lt.IsConst() {
			if e.branch(lt, nil, nil) == isMin {
				return xv
			}
			return yv
		}
		if lt.IsTrue() == isMin {
			return xv
		}
		return yv
	}
	panic(engineError{"min/max on unsupported type"})
}

// ---------- channels, goroutines, select (cooperative threads, see threads.go) ----------

func (e *Engine) chanSnap(ch *Chan) {
	if e.initMode == 0 {
		old := *ch
		e.undo = append(e.undo, undoRec{f: func() { *ch = old }})
	}
}

func (e *Engine) sendReady(ch *Chan) bool {
	if ch.closed {
		return true
	}
	if e.cfg.UnboundedChans {
		return true
	}
	if ch.cap == 0 {
		return ch.recvWaiting > 0 && len(ch.buf) == 0
	}
	return len(ch.buf) < ch.cap
}

func (e *Engine) chanSend(fr *frame, instr ssa.Instruction, ch *Chan, v value) {
	if ch == nil {
		e.block(func() bool { return false }, "send on nil channel")
	}
	if !e.sendReady(ch) {
		e.block(func() bool { return e.sendReady(ch) }, "channel send")
	}
	if ch.closed {
		panic(targetPanic{v: e.rtErr("send on closed channel"), rt: true, msg: "send on closed channel", pos: fr.posOf(instr)})
	}
	e.chanSnap(ch)
	ch.buf = append(ch.buf[:len(ch.buf):len(ch.buf)], v)
}

func (e *Engine) chanRecv(fr *frame, instr *ssa.UnOp, ch *Chan, commaOk bool) value {
	if ch == nil {
		e.block(func() bool { return false }, "receive on nil channel")
	}
	elemT := instr.X.Type().Underlying().(*types.Chan).Elem()
	if len(ch.buf) == 0 && !ch.closed {
		ch.recvWaiting++
		func() {
			defer func() { ch.recvWaiting-- }()
			e.block(func() bool { return len(ch.buf) > 0 || ch.closed }, "channel receive")
		}()
	}
	if len(ch.buf) == 0 {
		z := e.zero(elemT)
		if commaOk {
			return Tuple{z, e.ctx.fls}
		}
		return z
	}
	v := ch.buf[0]
	e.chanSnap(ch)
	ch.buf = ch.buf[1:]
	if commaOk {
		return Tuple{v, e.ctx.tru}
	}
	return v
}

func (e *Engine) chanClose(fr *frame, ch *Chan) {
	if ch == nil || ch.closed {
		panic(targetPanic{v: e.rtErr("close of nil or closed channel"), rt: true, msg: "close of nil/closed channel"})
	}
	e.chanSnap(ch)
	ch.closed = true
}

func (e *Engine) goStmt(fr *frame, instr *ssa.Go, fn value, args []value) {
	if e.cfg.EagerGo {
		// Run the goroutine to completion right here (sound when its only
		// interaction with the parent is through unbounded FIFOs).
		e.call(fr, instr.Pos(), fn, args)
		return
	}
	e.spawn(fr, instr.Pos(), fn, args)
}

func (e *Engine) selectReady(fr *frame, instr *ssa.Select) int {
	for i, st := range instr.States {
		ch := fr.get(st.Chan).(*Chan)
		if ch == nil {
			continue
		}
		if st.Dir == types.RecvOnly {
			if len(ch.buf) > 0 || ch.closed {
				return i
			}
		} else if e.sendReady(ch) {
			return i
		}
	}
	return -1
}

func (e *Engine) selectOp(fr *frame, instr *ssa.Select) value {
	c := e.ctx
	zeros := func(r Tuple, chosen int, v value) Tuple {
		for j, st2 := range instr.States {
			if st2.Dir == types.RecvOnly {
				if j == chosen {
					r = append(r, v)
				} else {
					r = append(r, e.zero(st2.Chan.Type().Underlying().(*types.Chan).Elem()))
				}
			}
		}
		return r
	}
	i := e.selectReady(fr, instr)
	if i < 0 {
		if !instr.Blocking {
			return zeros(Tuple{c.Const(64, ^uint64(0)), c.fls}, -1, nil)
		}
		// announce ourselves as a waiting receiver on every receive case
		var recvs []*Chan
		for _, st := range instr.States {
			if ch := fr.get(st.Chan).(*Chan); ch != nil && st.Dir == types.RecvOnly {
				ch.recvWaiting++
				recvs = append(recvs, ch)
			}
		}
		func() {
			defer func() {
				for _, ch := range recvs {
					ch.recvWaiting--
				}
			}()
			e.block(func() bool { return e.selectReady(fr, instr) >= 0 }, "select")
		}()
		i = e.selectReady(fr, instr)
	}
	st := instr.States[i]
	ch := fr.get(st.Chan).(*Chan)
	if st.Dir == types.RecvOnly {
		elemT := st.Chan.Type().Underlying().(*types.Chan).Elem()
		var v value
		recvOk := false
		if len(ch.buf) > 0 {
			v = ch.buf[0]
			e.chanSnap(ch)
			ch.buf = ch.buf[1:]
			recvOk = true
		} else {
			v = e.zero(elemT)
		}
		return zeros(Tuple{c.Const(64, uint64(i)), c.Bool(recvOk)}, i, v)
	}
	e.chanSend(fr, instr, ch, fr.get(st.Send))
	return zeros(Tuple{c.Const(64, uint64(i)), c.fls}, -1, nil)
}
