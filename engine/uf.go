package main

import "golang.org/x/tools/go/ssa"

type ufCall struct {
	log []*Term
	out []*Term
}

func init() {
	reg(verifrtPath+".HashUF", func(e *Engine, caller *frame, fn *ssa.Function, args []value) value {
		log := e.bytesOf(args[0])
		n := int(e.concInt(args[1].(*Term), "HashUF size"))
		c := e.ctx
		out := make([]*Term, n)
		res := make([]value, n)
		for i := range out {
			out[i] = e.nondet(8, "u8")
			res[i] = out[i]
		}
		for _, prev := range e.ufCalls {
			if len(prev.out) != n {
				continue
			}
			eqOut := e.equalSeq(prev.out, out)
			if len(prev.log) == len(log) {
				eqLog := e.equalSeq(prev.log, log)
				e.assume(c.Implies(eqLog, eqOut))
				e.assume(c.Implies(eqOut, eqLog)) // collision resistance (assumption)
			} else {
				e.assume(c.Not(eqOut)) // collision resistance (assumption)
			}
		}
		e.ufCalls = append(e.ufCalls, ufCall{log: log, out: out})
		return res
	})
}
