package main

// Intrinsics: functions the engine implements itself (exact models) because
// they have no Go body (assembly / linkname), use reflection, or would pull in
// large irrelevant call trees (fmt).

import (
	"fmt"
	"go/token"
	"go/types"
	"strings"

	"golang.org/x/tools/go/ssa"
)

type intrinsicFn func(e *Engine, caller *frame, fn *ssa.Function, args []value) value

const verifrtPath = "github.com/go-git/go-git/v6/internal/verifrt"

var intrinsics = map[string]intrinsicFn{}

func reg(name string, f intrinsicFn) { intrinsics[name] = f }

func (e *Engine) findIntrinsic(fn *ssa.Function) intrinsicFn {
	name := fn.String()
	if e.cfg.Havoc[name] {
		// over-approximating stub: every scalar result is a fresh
		// unconstrained value at every call
		return func(e *Engine, caller *frame, fn *ssa.Function, args []value) value {
			res := fn.Signature.Results()
			mk := func(t types.Type) value {
				b, ok := t.Underlying().(*types.Basic)
				if !ok {
					panic(engineError{"havoc: non-scalar result of " + fn.String()})
				}
				w, _, ok := intWidth(b)
				if !ok {
					panic(engineError{"havoc: non-integer result of " + fn.String()})
				}
				return e.freshVar("havoc", w)
			}
			switch res.Len() {
			case 0:
				return nil
			case 1:
				return mk(res.At(0).Type())
			}
			t := make(Tuple, res.Len())
			for i := range t {
				t[i] = mk(res.At(i).Type())
			}
			return t
		}
	}
	if f, ok := intrinsics[name]; ok {
		return f
	}
	if o := fn.Origin(); o != nil {
		if f, ok := intrinsics[o.String()]; ok {
			return f
		}
	}
	if strings.HasPrefix(name, "(*regexp.Regexp).") {
		return func(e *Engine, caller *frame, fn *ssa.Function, args []value) value {
			panic(engineError{"regexp method not modelled: " + fn.String()})
		}
	}
	if fn.Pkg != nil {
		switch fn.Pkg.Pkg.Path() {
		case "internal/race", "internal/msan", "internal/asan":
			return func(e *Engine, caller *frame, fn *ssa.Function, args []value) value {
				return e.zeroResult(fn)
			}
		}
	}
	return nil
}

func (e *Engine) zeroResult(fn *ssa.Function) value {
	res := fn.Signature.Results()
	switch res.Len() {
	case 0:
		return nil
	case 1:
		return e.zero(res.At(0).Type())
	}
	return e.zero(res)
}

func (e *Engine) bytesOf(v value) []*Term {
	switch v := v.(type) {
	case Str:
		return e.strTerms(v)
	case []value:
		r := make([]*Term, len(v))
		for i, b := range v {
			r[i] = b.(*Term)
		}
		return r
	}
	panic(engineError{fmt.Sprintf("bytesOf %T", v)})
}

func (e *Engine) int64c(v int64) *Term { return e.ctx.Const(64, uint64(v)) }

// indexByte: first i with s[i]==c, else -1 (as a term).
func (e *Engine) indexByte(s []*Term, c *Term) *Term {
	ctx := e.ctx
	r := e.int64c(-1)
	for i := len(s) - 1; i >= 0; i-- {
		r = ctx.Ite(ctx.Eq(s[i], c), e.int64c(int64(i)), r)
	}
	return r
}

func (e *Engine) lastIndexByte(s []*Term, c *Term) *Term {
	ctx := e.ctx
	r := e.int64c(-1)
	for i := 0; i < len(s); i++ {
		r = ctx.Ite(ctx.Eq(s[i], c), e.int64c(int64(i)), r)
	}
	return r
}

func (e *Engine) matchAt(s, sep []*Term, i int) *Term {
	ctx := e.ctx
	r := ctx.tru
	for j := range sep {
		r = ctx.And(r, ctx.Eq(s[i+j], sep[j]))
		if r.IsFalse() {
			break
		}
	}
	return r
}

func (e *Engine) indexSeq(s, sep []*Term) *Term {
	ctx := e.ctx
	if len(sep) == 0 {
		return e.int64c(0)
	}
	r := e.int64c(-1)
	for i := len(s) - len(sep); i >= 0; i-- {
		r = ctx.Ite(e.matchAt(s, sep, i), e.int64c(int64(i)), r)
	}
	return r
}

func (e *Engine) lastIndexSeq(s, sep []*Term) *Term {
	ctx := e.ctx
	if len(sep) == 0 {
		return e.int64c(int64(len(s)))
	}
	r := e.int64c(-1)
	for i := 0; i+len(sep) <= len(s); i++ {
		r = ctx.Ite(e.matchAt(s, sep, i), e.int64c(int64(i)), r)
	}
	return r
}

func (e *Engine) compareSeq(a, b []*Term) *Term {
	ctx := e.ctx
	var r *Term
	switch {
	case len(a) < len(b):
		r = e.int64c(-1)
	case len(a) > len(b):
		r = e.int64c(1)
	default:
		r = e.int64c(0)
	}
	n := min(len(a), len(b))
	for i := n - 1; i >= 0; i-- {
		r = ctx.Ite(ctx.Eq(a[i], b[i]), r, ctx.Ite(ctx.Ult(a[i], b[i]), e.int64c(-1), e.int64c(1)))
	}
	return r
}

func (e *Engine) equalSeq(a, b []*Term) *Term {
	if len(a) != len(b) {
		return e.ctx.fls
	}
	r := e.ctx.tru
	for i := range a {
		r = e.ctx.And(r, e.ctx.Eq(a[i], b[i]))
		if r.IsFalse() {
			break
		}
	}
	return r
}

func (e *Engine) countByte(s []*Term, c *Term) *Term {
	ctx := e.ctx
	r := e.int64c(0)
	for _, b := range s {
		r = ctx.Bin(OpAdd, r, ctx.Ite(ctx.Eq(b, c), e.int64c(1), e.int64c(0)))
	}
	return r
}

func init() {
	// ----- harness API -----
	nd := func(w uint8, kind string) intrinsicFn {
		return func(e *Engine, caller *frame, fn *ssa.Function, args []value) value {
			return e.nondet(w, kind)
		}
	}
	reg(verifrtPath+".NondetBool", nd(0, "bool"))
	reg(verifrtPath+".NondetByte", nd(8, "u8"))
	reg(verifrtPath+".NondetUint16", nd(16, "u16"))
	reg(verifrtPath+".NondetUint32", nd(32, "u32"))
	reg(verifrtPath+".NondetUint64", nd(64, "u64"))
	reg(verifrtPath+".NondetInt", nd(64, "i64"))
	reg(verifrtPath+".NondetInt64", nd(64, "i64"))
	reg(verifrtPath+".NondetInt32", nd(32, "i32"))
	reg(verifrtPath+".NondetBytes", func(e *Engine, caller *frame, fn *ssa.Function, args []value) value {
		n := int(e.concInt(args[0].(*Term), "NondetBytes length"))
		r := make([]value, n)
		for i := range r {
			r[i] = e.nondet(8, "u8")
		}
		return r
	})
	reg(verifrtPath+".NondetString", func(e *Engine, caller *frame, fn *ssa.Function, args []value) value {
		n := int(e.concInt(args[0].(*Term), "NondetString length"))
		r := make([]*Term, n)
		for i := range r {
			r[i] = e.nondet(8, "u8")
		}
		if n == 0 {
			return Str{}
		}
		return Str{sym: r}
	})
	reg(verifrtPath+".Range", func(e *Engine, caller *frame, fn *ssa.Function, args []value) value {
		lo, hi := args[0].(*Term), args[1].(*Term)
		v := e.nondet(64, "i64")
		e.assume(e.ctx.And(e.ctx.Sle(lo, v), e.ctx.Sle(v, hi)))
		return e.ctx.Const(64, e.concretize(v, "Range"))
	})
	reg(verifrtPath+".Assume", func(e *Engine, caller *frame, fn *ssa.Function, args []value) value {
		e.assume(args[0].(*Term))
		return nil
	})
	reg(verifrtPath+".Assert", func(e *Engine, caller *frame, fn *ssa.Function, args []value) value {
		id := args[1].(Str)
		if !id.IsConc() {
			panic(engineError{"Assert id must be a constant string"})
		}
		e.assertCond(args[0].(*Term), id.s, caller.fn.String())
		return nil
	})
	reg(verifrtPath+".Reach", func(e *Engine, caller *frame, fn *ssa.Function, args []value) value {
		e.reach(args[0].(Str).s)
		return nil
	})
	reg(verifrtPath+".Known", func(e *Engine, caller *frame, fn *ssa.Function, args []value) value {
		e.known(args[0].(Str).s, args[1].(*Term))
		return nil
	})
	reg(verifrtPath+".Concretize", func(e *Engine, caller *frame, fn *ssa.Function, args []value) value {
		t := args[0].(*Term)
		return e.ctx.Const(t.w, e.concretize(t, "Concretize"))
	})
	reg(verifrtPath+".Symbolic", func(e *Engine, caller *frame, fn *ssa.Function, args []value) value {
		return e.ctx.tru
	})
	reg(verifrtPath+".Ite", func(e *Engine, caller *frame, fn *ssa.Function, args []value) value {
		return e.ctx.Ite(args[0].(*Term), args[1].(*Term), args[2].(*Term))
	})
	reg(verifrtPath+".IteByte", func(e *Engine, caller *frame, fn *ssa.Function, args []value) value {
		return e.ctx.Ite(args[0].(*Term), args[1].(*Term), args[2].(*Term))
	})
	reg(verifrtPath+".And", func(e *Engine, caller *frame, fn *ssa.Function, args []value) value {
		return e.ctx.And(args[0].(*Term), args[1].(*Term))
	})
	reg(verifrtPath+".Or", func(e *Engine, caller *frame, fn *ssa.Function, args []value) value {
		return e.ctx.Or(args[0].(*Term), args[1].(*Term))
	})
	reg(verifrtPath+".Implies", func(e *Engine, caller *frame, fn *ssa.Function, args []value) value {
		return e.ctx.Implies(args[0].(*Term), args[1].(*Term))
	})
	reg(verifrtPath+".BytesEq", func(e *Engine, caller *frame, fn *ssa.Function, args []value) value {
		return e.equalSeq(e.bytesOf(args[0]), e.bytesOf(args[1]))
	})
	reg(verifrtPath+".StrEq", func(e *Engine, caller *frame, fn *ssa.Function, args []value) value {
		return e.strEq(args[0].(Str), args[1].(Str))
	})
	reg(verifrtPath+".MergeBool", func(e *Engine, caller *frame, fn *ssa.Function, args []value) value {
		return e.mergeCall(caller, args[0], 0)
	})
	reg(verifrtPath+".MergeInt", func(e *Engine, caller *frame, fn *ssa.Function, args []value) value {
		return e.mergeCall(caller, args[0], 64)
	})
	reg(verifrtPath+".Param", func(e *Engine, caller *frame, fn *ssa.Function, args []value) value {
		name := args[0].(Str).s
		v, ok := e.cfg.Params[name]
		if !ok {
			panic(engineError{"missing harness param " + name})
		}
		return e.int64c(int64(v))
	})
	reg(verifrtPath+".Log", func(e *Engine, caller *frame, fn *ssa.Function, args []value) value { return nil })

	// ----- internal/bytealg -----
	reg("internal/bytealg.IndexByte", func(e *Engine, caller *frame, fn *ssa.Function, args []value) value {
		return e.indexByte(e.bytesOf(args[0]), args[1].(*Term))
	})
	intrinsics["internal/bytealg.IndexByteString"] = intrinsics["internal/bytealg.IndexByte"]
	reg("internal/bytealg.LastIndexByte", func(e *Engine, caller *frame, fn *ssa.Function, args []value) value {
		return e.lastIndexByte(e.bytesOf(args[0]), args[1].(*Term))
	})
	intrinsics["internal/bytealg.LastIndexByteString"] = intrinsics["internal/bytealg.LastIndexByte"]
	reg("internal/bytealg.Count", func(e *Engine, caller *frame, fn *ssa.Function, args []value) value {
		return e.countByte(e.bytesOf(args[0]), args[1].(*Term))
	})
	intrinsics["internal/bytealg.CountString"] = intrinsics["internal/bytealg.Count"]
	reg("internal/bytealg.Equal", func(e *Engine, caller *frame, fn *ssa.Function, args []value) value {
		return e.equalSeq(e.bytesOf(args[0]), e.bytesOf(args[1]))
	})
	reg("internal/bytealg.Compare", func(e *Engine, caller *frame, fn *ssa.Function, args []value) value {
		return e.compareSeq(e.bytesOf(args[0]), e.bytesOf(args[1]))
	})
	intrinsics["internal/bytealg.CompareString"] = intrinsics["internal/bytealg.Compare"]
	reg("internal/bytealg.Index", func(e *Engine, caller *frame, fn *ssa.Function, args []value) value {
		return e.indexSeq(e.bytesOf(args[0]), e.bytesOf(args[1]))
	})
	intrinsics["internal/bytealg.IndexString"] = intrinsics["internal/bytealg.Index"]
	reg("internal/bytealg.MakeNoZero", func(e *Engine, caller *frame, fn *ssa.Function, args []value) value {
		n := e.allocSize(caller, nil, args[0].(*Term))
		return e.makeSlice(types.Typ[types.Uint8], n, n)
	})
	for _, n := range []string{"strings.Index", "bytes.Index"} {
		reg(n, func(e *Engine, caller *frame, fn *ssa.Function, args []value) value {
			return e.indexSeq(e.bytesOf(args[0]), e.bytesOf(args[1]))
		})
	}
	for _, n := range []string{"strings.LastIndex", "bytes.LastIndex"} {
		reg(n, func(e *Engine, caller *frame, fn *ssa.Function, args []value) value {
			return e.lastIndexSeq(e.bytesOf(args[0]), e.bytesOf(args[1]))
		})
	}
	for _, n := range []string{"strings.IndexByte", "bytes.IndexByte"} {
		reg(n, func(e *Engine, caller *frame, fn *ssa.Function, args []value) value {
			return e.indexByte(e.bytesOf(args[0]), args[1].(*Term))
		})
	}
	for _, n := range []string{"strings.LastIndexByte", "bytes.LastIndexByte"} {
		reg(n, func(e *Engine, caller *frame, fn *ssa.Function, args []value) value {
			return e.lastIndexByte(e.bytesOf(args[0]), args[1].(*Term))
		})
	}
	reg("strings.Compare", func(e *Engine, caller *frame, fn *ssa.Function, args []value) value {
		return e.compareSeq(e.bytesOf(args[0]), e.bytesOf(args[1]))
	})
	reg("bytes.Compare", func(e *Engine, caller *frame, fn *ssa.Function, args []value) value {
		return e.compareSeq(e.bytesOf(args[0]), e.bytesOf(args[1]))
	})
	reg("bytes.Equal", func(e *Engine, caller *frame, fn *ssa.Function, args []value) value {
		return e.equalSeq(e.bytesOf(args[0]), e.bytesOf(args[1]))
	})
	reg("strings.Contains", func(e *Engine, caller *frame, fn *ssa.Function, args []value) value {
		idx := e.indexSeq(e.bytesOf(args[0]), e.bytesOf(args[1]))
		return e.ctx.Sle(e.int64c(0), idx)
	})
	reg("bytes.Contains", intrinsics["strings.Contains"])
	reg("strings.HasPrefix", func(e *Engine, caller *frame, fn *ssa.Function, args []value) value {
		s, p := e.bytesOf(args[0]), e.bytesOf(args[1])
		if len(s) < len(p) {
			return e.ctx.fls
		}
		return e.matchAt(s, p, 0)
	})
	reg("bytes.HasPrefix", intrinsics["strings.HasPrefix"])
	reg("strings.HasSuffix", func(e *Engine, caller *frame, fn *ssa.Function, args []value) value {
		s, p := e.bytesOf(args[0]), e.bytesOf(args[1])
		if len(s) < len(p) {
			return e.ctx.fls
		}
		return e.matchAt(s, p, len(s)-len(p))
	})
	reg("bytes.HasSuffix", intrinsics["strings.HasSuffix"])

	// ----- abi / runtime / misc no-ops -----
	ident := func(e *Engine, caller *frame, fn *ssa.Function, args []value) value { return args[0] }
	reg("internal/abi.NoEscape", ident)
	reg("internal/abi.Escape", ident)
	noop := func(e *Engine, caller *frame, fn *ssa.Function, args []value) value { return e.zeroResult(fn) }
	for _, n := range []string{"runtime.KeepAlive", "runtime.SetFinalizer", "runtime.Gosched", "runtime.GC",
		"internal/runtime/sys.Prefetch", "runtime.AddCleanup"} {
		reg(n, noop)
	}

	// ----- sync -----
	lk := func(f func(e *Engine, p *value)) intrinsicFn {
		return func(e *Engine, caller *frame, fn *ssa.Function, args []value) value {
			p, ok := args[0].(Ptr)
			if !ok || p.p == nil {
				panic(targetPanic{v: e.rtErr("invalid memory address or nil pointer dereference"), rt: true, msg: "lock operation on nil mutex"})
			}
			f(e, p.p)
			return nil
		}
	}
	reg("(*sync.Mutex).Lock", lk((*Engine).lockW))
	reg("(*sync.Mutex).Unlock", lk((*Engine).unlockW))
	reg("(*sync.RWMutex).Lock", lk((*Engine).lockW))
	reg("(*sync.RWMutex).Unlock", lk((*Engine).unlockW))
	reg("(*sync.RWMutex).RLock", lk((*Engine).lockR))
	reg("(*sync.RWMutex).RUnlock", lk((*Engine).unlockR))
	reg("(*internal/sync.Mutex).Lock", lk((*Engine).lockW))
	reg("(*internal/sync.Mutex).Unlock", lk((*Engine).unlockW))
	reg("(*sync.Mutex).TryLock", func(e *Engine, caller *frame, fn *ssa.Function, args []value) value {
		l := e.lockOf(args[0].(Ptr).p)
		if l.writer || l.readers > 0 {
			return e.ctx.fls
		}
		e.lockW(args[0].(Ptr).p)
		return e.ctx.tru
	})
	reg("(*sync.WaitGroup).Add", func(e *Engine, caller *frame, fn *ssa.Function, args []value) value {
		l := e.lockOf(args[0].(Ptr).p)
		d := int(e.concInt(args[1].(*Term), "WaitGroup.Add"))
		l.readers += d
		e.undo = append(e.undo, undoRec{f: func() { l.readers -= d }})
		return nil
	})
	reg("(*sync.WaitGroup).Done", func(e *Engine, caller *frame, fn *ssa.Function, args []value) value {
		l := e.lockOf(args[0].(Ptr).p)
		l.readers--
		e.undo = append(e.undo, undoRec{f: func() { l.readers++ }})
		return nil
	})
	reg("(*sync.WaitGroup).Wait", func(e *Engine, caller *frame, fn *ssa.Function, args []value) value {
		l := e.lockOf(args[0].(Ptr).p)
		e.block(func() bool { return l.readers <= 0 }, "WaitGroup.Wait")
		return nil
	})
	reg("(*sync.WaitGroup).Go", func(e *Engine, caller *frame, fn *ssa.Function, args []value) value {
		l := e.lockOf(args[0].(Ptr).p)
		l.readers++
		e.undo = append(e.undo, undoRec{f: func() { l.readers-- }})
		f := args[1]
		e.spawn(caller, token.NoPos, &nativeFunc{name: "wg.Go", f: func(e *Engine, c *frame, _ []value) value {
			defer func() { l.readers-- }()
			return e.call(c, token.NoPos, f, nil)
		}}, nil)
		return nil
	})
	reg("(*sync.Once).Do", func(e *Engine, caller *frame, fn *ssa.Function, args []value) value {
		// Once{done atomic.Uint32 (struct{_ noCopy; v uint32}), m Mutex}
		p := args[0].(Ptr)
		st := (*p.p).(Struct)
		doneSt := st[1].(Struct)
		// locate the uint32 field
		var cell *value
		for i := range doneSt {
			if _, ok := doneSt[i].(*Term); ok {
				cell = &doneSt[i]
			}
		}
		if cell == nil {
			panic(engineError{"sync.Once layout"})
		}
		if (*cell).(*Term).val != 0 {
			return nil
		}
		e.rawStore(cell, e.ctx.Const(32, 1))
		e.call(caller, token.NoPos, args[1], nil)
		return nil
	})
	reg("(*sync.Pool).Get", func(e *Engine, caller *frame, fn *ssa.Function, args []value) value {
		p := args[0].(Ptr)
		st := (*p.p).(Struct)
		newFn := st[len(st)-1]
		if isNilFunc(newFn) {
			return Iface{}
		}
		return e.call(caller, token.NoPos, newFn, nil)
	})
	reg("(*sync.Pool).Put", noop)

	// ----- sync/atomic (sequentially consistent) -----
	for _, ty := range []string{"Int32", "Int64", "Uint32", "Uint64", "Uintptr"} {
		ty := ty
		reg("sync/atomic.Load"+ty, func(e *Engine, caller *frame, fn *ssa.Function, args []value) value {
			return e.loadPtr(caller, nil, args[0])
		})
		reg("sync/atomic.Store"+ty, func(e *Engine, caller *frame, fn *ssa.Function, args []value) value {
			e.rawStore(args[0].(Ptr).p, args[1])
			return nil
		})
		reg("sync/atomic.Add"+ty, func(e *Engine, caller *frame, fn *ssa.Function, args []value) value {
			p := args[0].(Ptr).p
			nv := e.ctx.Bin(OpAdd, (*p).(*Term), args[1].(*Term))
			e.rawStore(p, nv)
			return nv
		})
		reg("sync/atomic.Swap"+ty, func(e *Engine, caller *frame, fn *ssa.Function, args []value) value {
			p := args[0].(Ptr).p
			old := *p
			e.rawStore(p, args[1])
			return old
		})
		reg("sync/atomic.CompareAndSwap"+ty, func(e *Engine, caller *frame, fn *ssa.Function, args []value) value {
			p := args[0].(Ptr).p
			eq := e.ctx.Eq((*p).(*Term), args[1].(*Term))
			if e.branch(eq, caller, nil) {
				e.rawStore(p, args[2])
				return e.ctx.tru
			}
			return e.ctx.fls
		})
		reg("sync/atomic.And"+ty, func(e *Engine, caller *frame, fn *ssa.Function, args []value) value {
			p := args[0].(Ptr).p
			old := (*p).(*Term)
			e.rawStore(p, e.ctx.Bin(OpBAnd, old, args[1].(*Term)))
			return old
		})
		reg("sync/atomic.Or"+ty, func(e *Engine, caller *frame, fn *ssa.Function, args []value) value {
			p := args[0].(Ptr).p
			old := (*p).(*Term)
			e.rawStore(p, e.ctx.Bin(OpBOr, old, args[1].(*Term)))
			return old
		})
	}
	reg("sync/atomic.LoadPointer", func(e *Engine, caller *frame, fn *ssa.Function, args []value) value {
		return e.loadPtr(caller, nil, args[0])
	})
	reg("sync/atomic.StorePointer", func(e *Engine, caller *frame, fn *ssa.Function, args []value) value {
		e.rawStore(args[0].(Ptr).p, args[1])
		return nil
	})
	reg("sync/atomic.SwapPointer", func(e *Engine, caller *frame, fn *ssa.Function, args []value) value {
		p := args[0].(Ptr).p
		old := *p
		e.rawStore(p, args[1])
		return old
	})
	reg("sync/atomic.CompareAndSwapPointer", func(e *Engine, caller *frame, fn *ssa.Function, args []value) value {
		p := args[0].(Ptr).p
		cur, _ := (*p).(Ptr)
		old, _ := args[1].(Ptr)
		if cur.p == old.p {
			e.rawStore(p, args[2])
			return e.ctx.tru
		}
		return e.ctx.fls
	})

	// ----- errors -----
	reg("errors.Is", func(e *Engine, caller *frame, fn *ssa.Function, args []value) value {
		return e.ctx.Bool(e.errorsIs(caller, args[0].(Iface), args[1].(Iface), 0))
	})
	reg("errors.As", func(e *Engine, caller *frame, fn *ssa.Function, args []value) value {
		return e.ctx.Bool(e.errorsAs(caller, args[0].(Iface), args[1].(Iface), 0))
	})

	// ----- fmt -----
	reg("fmt.Errorf", func(e *Engine, caller *frame, fn *ssa.Function, args []value) value {
		return e.fmtErrorf(caller, args[0].(Str), args[1].([]value))
	})
	reg("fmt.Sprintf", func(e *Engine, caller *frame, fn *ssa.Function, args []value) value {
		return e.sprintf(caller, args[0].(Str), args[1].([]value), nil)
	})
	reg("fmt.Sprint", func(e *Engine, caller *frame, fn *ssa.Function, args []value) value {
		return e.sprint(caller, args[0].([]value), false)
	})
	reg("fmt.Sprintln", func(e *Engine, caller *frame, fn *ssa.Function, args []value) value {
		return e.sprint(caller, args[0].([]value), true)
	})
	reg("fmt.Fprintf", func(e *Engine, caller *frame, fn *ssa.Function, args []value) value {
		s := e.sprintf(caller, args[1].(Str), args[2].([]value), nil)
		return e.writeTo(caller, args[0].(Iface), s)
	})
	reg("fmt.Fprint", func(e *Engine, caller *frame, fn *ssa.Function, args []value) value {
		s := e.sprint(caller, args[1].([]value), false)
		return e.writeTo(caller, args[0].(Iface), s)
	})
	reg("fmt.Fprintln", func(e *Engine, caller *frame, fn *ssa.Function, args []value) value {
		s := e.sprint(caller, args[1].([]value), true)
		return e.writeTo(caller, args[0].(Iface), s)
	})
	reg("fmt.Appendf", func(e *Engine, caller *frame, fn *ssa.Function, args []value) value {
		s := e.sprintf(caller, args[1].(Str), args[2].([]value), nil)
		b := args[0].([]value)
		r := make([]value, len(b), len(b)+s.Len())
		copy(r, b)
		for i := 0; i < s.Len(); i++ {
			r = append(r, e.strAt(s, i))
		}
		return r
	})
	for _, n := range []string{"fmt.Printf", "fmt.Println", "fmt.Print", "log.Printf", "log.Println", "log.Print"} {
		reg(n, noop)
	}

	// ----- sort (reflection-based entry points) -----
	reg("sort.Slice", func(e *Engine, caller *frame, fn *ssa.Function, args []value) value {
		e.sortSlice(caller, args[0].(Iface), args[1])
		return nil
	})
	reg("sort.SliceStable", intrinsics["sort.Slice"])

	// ----- time -----
	// time.Now: the clock is a stub that returns one fixed instant
	// (2026-01-01T00:00:00Z, no monotonic reading) at every call: time does not
	// advance during the operations a harness runs, so polling loops with
	// time-outs (the packed-refs lock retry) never time out. A symbolic clock
	// was tried and dropped: time.Since/Sub divide 64-bit values by 10^9, which
	// the solvers do not decide. Harnesses that depend on time take it from
	// their own inputs (file mtimes, commit timestamps).
	reg("time.Now", func(e *Engine, caller *frame, fn *ssa.Function, args []value) value {
		c := e.ctx
		return Struct{c.Const(64, 0), c.Const(64, 63902822400), Ptr{}}
	})
}

// writeTo calls w.Write(bytes of s) and returns (n, err) as fmt.Fprintf does.
func (e *Engine) writeTo(caller *frame, w Iface, s Str) value {
	if w.t == nil {
		panic(targetPanic{v: e.rtErr("nil writer"), rt: true, msg: "Fprintf to nil writer"})
	}
	b := make([]value, s.Len())
	for i := range b {
		b[i] = e.strAt(s, i)
	}
	m := e.methodByName(w.t, "Write")
	if m == nil {
		panic(engineError{"writeTo: no Write method on " + w.t.String()})
	}
	return e.callSSA(caller, token.NoPos, m, []value{w.v, b}, nil)
}

func (e *Engine) methodByName(t types.Type, name string) *ssa.Function {
	e.shared.progMu.Lock()
	defer e.shared.progMu.Unlock()
	ms := e.prog.MethodSets.MethodSet(t)
	for i := 0; i < ms.Len(); i++ {
		sel := ms.At(i)
		if sel.Obj().Name() == name {
			return e.prog.MethodValue(sel)
		}
	}
	return nil
}

// ---------- errors.Is / errors.As ----------

func isComparableType(t types.Type) bool { return types.Comparable(t) }

func (e *Engine) errorsIs(caller *frame, err, target Iface, depth int) bool {
	if err.t == nil || target.t == nil {
		return err.t == nil && target.t == nil
	}
	if depth > 32 {
		panic(engineError{"errors.Is: chain too deep"})
	}
	for {
		if isComparableType(target.t) && types.Identical(err.t, target.t) {
			eq := e.equals(err.t, err.v, target.v)
			if e.branch(eq, caller, nil) {
				return true
			}
		}
		if m := e.methodByName(err.t, "Is"); m != nil && m.Signature.Params().Len() == 1 && m.Signature.Results().Len() == 1 {
			r := e.callSSA(caller, token.NoPos, m, []value{err.v, target}, nil)
			if rt, ok := r.(*Term); ok && e.branch(rt, caller, nil) {
				return true
			}
		}
		m := e.methodByName(err.t, "Unwrap")
		if m == nil {
			return false
		}
		res := m.Signature.Results()
		if res.Len() != 1 {
			return false
		}
		r := e.callSSA(caller, token.NoPos, m, []value{err.v}, nil)
		switch r := r.(type) {
		case Iface:
			if r.t == nil {
				return false
			}
			err = r
		case []value:
			for _, x := range r {
				xi := x.(Iface)
				if xi.t == nil {
					continue
				}
				if e.errorsIs(caller, xi, target, depth+1) {
					return true
				}
			}
			return false
		default:
			return false
		}
	}
}

func (e *Engine) errorsAs(caller *frame, err, target Iface, depth int) bool {
	if err.t == nil {
		return false
	}
	if target.t == nil {
		panic(targetPanic{v: e.rtErr("errors: target cannot be nil"), msg: "errors.As: nil target"})
	}
	pt, ok := target.t.Underlying().(*types.Pointer)
	if !ok {
		panic(targetPanic{v: e.rtErr("errors: target must be a non-nil pointer"), msg: "errors.As: bad target"})
	}
	tt := pt.Elem()
	tp := target.v.(Ptr)
	for depth < 32 {
		if it, ok := tt.Underlying().(*types.Interface); ok {
			if e.implements(err.t, it) {
				e.store(tt, tp.p, err)
				return true
			}
		} else if types.Identical(err.t, tt) {
			e.store(tt, tp.p, err.v)
			return true
		}
		if m := e.methodByName(err.t, "As"); m != nil && m.Signature.Params().Len() == 1 {
			r := e.callSSA(caller, token.NoPos, m, []value{err.v, Iface{t: target.t, v: target.v}}, nil)
			if rt, ok := r.(*Term); ok && e.branch(rt, caller, nil) {
				return true
			}
		}
		m := e.methodByName(err.t, "Unwrap")
		if m == nil || m.Signature.Results().Len() != 1 {
			return false
		}
		r := e.callSSA(caller, token.NoPos, m, []value{err.v}, nil)
		switch r := r.(type) {
		case Iface:
			if r.t == nil {
				return false
			}
			err = r
		case []value:
			for _, x := range r {
				xi := x.(Iface)
				if xi.t != nil && e.errorsAs(caller, xi, target, depth+1) {
					return true
				}
			}
			return false
		default:
			return false
		}
		depth++
	}
	return false
}

// ---------- sort.Slice ----------

func (e *Engine) sortSlice(caller *frame, x Iface, less value) {
	s, ok := x.v.([]value)
	if !ok {
		panic(engineError{"sort.Slice on non-slice"})
	}
	lessAt := func(i, j int) bool {
		r := e.call(caller, token.NoPos, less, []value{e.int64c(int64(i)), e.int64c(int64(j))})
		return e.branch(r.(*Term), caller, nil)
	}
	// insertion sort (stable); elements swapped in place
	for i := 1; i < len(s); i++ {
		for j := i; j > 0 && lessAt(j, j-1); j-- {
			a, b := copyVal(s[j]), copyVal(s[j-1])
			e.rawStore(&s[j], b)
			e.rawStore(&s[j-1], a)
		}
	}
}

// ---------- unsafe builtins ----------

func (e *Engine) unsafeBuiltin(caller *frame, name string, args []value) (value, bool) {
	switch name {
	case "SliceData":
		s := args[0].([]value)
		if s == nil {
			return Ptr{}, true
		}
		if cap(s) == 0 {
			cell := new(value)
			return Ptr{p: cell}, true
		}
		full := s[:cap(s)]
		return Ptr{p: &full[0], arr: full}, true
	case "StringData":
		s := args[0].(Str)
		arr := make([]value, s.Len())
		for i := range arr {
			arr[i] = e.strAt(s, i)
		}
		if len(arr) == 0 {
			return Ptr{}, true
		}
		return Ptr{p: &arr[0], arr: arr}, true
	case "String":
		p := args[0].(Ptr)
		n := int(e.concInt(args[1].(*Term), "unsafe.String len"))
		if n == 0 {
			return Str{}, true
		}
		if p.arr == nil || len(p.arr) < n {
			panic(engineError{"unsafe.String on unsupported pointer"})
		}
		ts := make([]*Term, n)
		for i := 0; i < n; i++ {
			ts[i] = p.arr[i].(*Term)
		}
		return mkStr(ts), true
	case "Slice":
		p := args[0].(Ptr)
		n := int(e.concInt(args[1].(*Term), "unsafe.Slice len"))
		if p.p == nil {
			return []value(nil), true
		}
		if p.arr == nil || len(p.arr) < n {
			if n == 1 {
				// slice of one element over a plain cell is not representable
			}
			panic(engineError{"unsafe.Slice on unsupported pointer"})
		}
		return p.arr[:n:n], true
	}
	return nil, false
}

func init() {
	_ = strings.Builder{}
}

// ---------- regexp (constant single-character-class / literal patterns) ----------

func (e *Engine) regexpExpr(recv value) string {
	p, ok := recv.(Ptr)
	if !ok || p.p == nil {
		panic(engineError{"regexp: nil receiver"})
	}
	st := (*p.p).(Struct)
	s, ok := st[0].(Str)
	if !ok || !s.IsConc() {
		panic(engineError{"regexp: non-constant pattern"})
	}
	return s.s
}

// regexpMatchBytes: does the pattern match anywhere in b?
func (e *Engine) regexpMatchBytes(expr string, b []*Term) *Term {
	c := e.ctx
	re, err := rxParse(expr)
	if err != nil {
		panic(engineError{"regexp: " + err.Error()})
	}
	switch re.kind {
	case rxClass:
		r := c.fls
		for _, x := range b {
			in := c.fls
			for _, rg := range re.ranges {
				lo, hi := c.Const(8, uint64(rg[0])), c.Const(8, uint64(rg[1]))
				in = c.Or(in, c.And(c.Ule(lo, x), c.Ule(x, hi)))
			}
			r = c.Or(r, in)
		}
		return r
	case rxLiteral:
		lit := make([]*Term, len(re.lit))
		for i := range lit {
			lit[i] = c.Const(8, uint64(re.lit[i]))
		}
		idx := e.indexSeq(b, lit)
		return c.Sle(e.int64c(0), idx)
	}
	panic(engineError{"regexp: pattern too rich for the engine: " + expr})
}

func init() {
	mk := func(e *Engine, caller *frame, fn *ssa.Function, args []value) value {
		expr := args[0].(Str)
		if !expr.IsConc() {
			panic(engineError{"regexp: non-constant pattern"})
		}
		t := e.pkgType("regexp", "Regexp")
		cell := new(value)
		z := e.zero(t).(Struct)
		z[0] = expr
		*cell = z
		return Ptr{p: cell}
	}
	reg("regexp.MustCompile", mk)
	reg("regexp.Compile", func(e *Engine, caller *frame, fn *ssa.Function, args []value) value {
		return Tuple{mk(e, caller, fn, args), Iface{}}
	})
	reg("(*regexp.Regexp).MatchString", func(e *Engine, caller *frame, fn *ssa.Function, args []value) value {
		return e.regexpMatchBytes(e.regexpExpr(args[0]), e.bytesOf(args[1]))
	})
	reg("(*regexp.Regexp).Match", func(e *Engine, caller *frame, fn *ssa.Function, args []value) value {
		return e.regexpMatchBytes(e.regexpExpr(args[0]), e.bytesOf(args[1]))
	})
	reg("(*regexp.Regexp).String", func(e *Engine, caller *frame, fn *ssa.Function, args []value) value {
		return Str{s: e.regexpExpr(args[0])}
	})
}

// strings.IndexAny / ContainsAny with an all-ASCII constant character set:
// the first matching byte is the first matching rune (an ASCII byte is never
// part of a multi-byte sequence), so a byte-level chain is exact.
func init() {
	asciiSet := func(v value) ([]byte, bool) {
		s, ok := v.(Str)
		if !ok || !s.IsConc() {
			return nil, false
		}
		for i := 0; i < len(s.s); i++ {
			if s.s[i] >= 0x80 {
				return nil, false
			}
		}
		return []byte(s.s), true
	}
	indexAny := func(e *Engine, s []*Term, set []byte) *Term {
		c := e.ctx
		r := e.int64c(-1)
		for i := len(s) - 1; i >= 0; i-- {
			in := c.fls
			for _, ch := range set {
				in = c.Or(in, c.Eq(s[i], c.Const(8, uint64(ch))))
			}
			r = c.Ite(in, e.int64c(int64(i)), r)
		}
		return r
	}
	for _, pkg := range []string{"strings", "bytes"} {
		pkg := pkg
		reg(pkg+".IndexAny", func(e *Engine, caller *frame, fn *ssa.Function, args []value) value {
			if set, ok := asciiSet(args[1]); ok {
				return indexAny(e, e.bytesOf(args[0]), set)
			}
			return e.callSSABody(caller, fn, args)
		})
		reg(pkg+".ContainsAny", func(e *Engine, caller *frame, fn *ssa.Function, args []value) value {
			if set, ok := asciiSet(args[1]); ok {
				return e.ctx.Sle(e.int64c(0), indexAny(e, e.bytesOf(args[0]), set))
			}
			return e.callSSABody(caller, fn, args)
		})
	}
}
