package main

import "golang.org/x/tools/go/ssa"

func init() {
	// Grow only changes capacity, which no caller can observe except through
	// cap(); with a symbolic count the engine checks the negative-count panic
	// and otherwise skips the (unobservable) reallocation instead of forking
	// on every feasible size.
	grow := func(e *Engine, caller *frame, fn *ssa.Function, args []value) value {
		n := args[1].(*Term)
		if n.IsConst() {
			return e.callSSABody(caller, fn, args)
		}
		if !e.branch(e.ctx.Sle(e.ctx.Const(64, 0), n), caller, nil) {
			panic(targetPanic{v: Iface{t: e.rtErrType, v: Str{s: "Grow: negative count"}}, msg: "Grow: negative count", pos: caller.fn.String()})
		}
		// over-allocation obligation: the requested growth is attacker-controlled
		lim := e.ctx.Const(64, uint64(e.cfg.AllocLimit))
		if !e.branch(e.ctx.Sle(n, lim), caller, nil) {
			e.recordViolation("alloc", "alloc-limit", "Grow("+n.String()+") exceeds the allocation limit", caller.fn.String(), nil)
			panic(pathEnd{"allocation limit"})
		}
		return nil
	}
	reg("(*bytes.Buffer).Grow", grow)
	reg("(*strings.Builder).Grow", grow)
}
