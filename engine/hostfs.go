package main

import (
	"fmt"
	"os"
	"os/exec"
	"path/filepath"
	"strings"
)

// hostFSOverlay implements the harness.json option "hostFSHook": the host
// filesystem constructor of go-billy (osfs.New) gets a hook, so that code under
// test which opens the host filesystem directly (instead of going through the
// filesystem it was given) is executed against the harness's model of the host
// disk, symbolically and in the native replay alike.
//
// The overlay is generated at run time from the module's own osfs/os.go (the
// version go.mod pins): `func New(` is renamed to `func verifOrigNew(` and a
// second file adds
//
//	var VerifHostFS func(baseDir string) billy.Filesystem
//	func New(baseDir string, opts ...Option) billy.Filesystem  // hook, else verifOrigNew
//
// Without a hook installed the behaviour is unchanged.
func hostFSOverlay(prop string) (map[string]string, error) {
	cmd := exec.Command("go", "list", "-m", "-f", "{{.Dir}}", "github.com/go-git/go-billy/v6")
	cmd.Dir = repoDir
	cmd.Env = goEnv()
	out, err := cmd.Output()
	if err != nil {
		return nil, fmt.Errorf("hostFSHook: go list -m go-billy: %w", err)
	}
	dir := filepath.Join(strings.TrimSpace(string(out)), "osfs")
	src, err := os.ReadFile(filepath.Join(dir, "os.go"))
	if err != nil {
		return nil, fmt.Errorf("hostFSHook: %w", err)
	}
	const sig = "\nfunc New(baseDir string, opts ...Option) billy.Filesystem {"
	if strings.Count(string(src), sig) != 1 {
		return nil, fmt.Errorf("hostFSHook: osfs.New not found in %s (signature changed?)", dir)
	}
	patched := strings.Replace(string(src), sig, "\nfunc verifOrigNew(baseDir string, opts ...Option) billy.Filesystem {", 1)
	hook := `//go:build !js

package osfs

import billy "github.com/go-git/go-billy/v6"

// VerifHostFS, when set, stands for the host filesystem (verification only).
var VerifHostFS func(baseDir string) billy.Filesystem

func New(baseDir string, opts ...Option) billy.Filesystem {
	if VerifHostFS != nil {
		return VerifHostFS(baseDir)
	}
	return verifOrigNew(baseDir, opts...)
}
`
	// Files below GOMODCACHE cannot be overlaid: the module is copied (non-test
	// Go files and go.mod) into the scratch area, patched there, and /repo's
	// go.mod is overlaid with a replace directive pointing at the copy.
	modDir := filepath.Dir(dir)
	work := filepath.Join(outDir, ".work", "hostfs-"+prop)
	copyDir := filepath.Join(work, "billy")
	os.RemoveAll(copyDir)
	err = filepath.Walk(modDir, func(p string, fi os.FileInfo, err error) error {
		if err != nil {
			return err
		}
		rel, _ := filepath.Rel(modDir, p)
		dst := filepath.Join(copyDir, rel)
		if fi.IsDir() {
			return os.MkdirAll(dst, 0o755)
		}
		if strings.HasSuffix(p, "_test.go") || !(strings.HasSuffix(p, ".go") || fi.Name() == "go.mod") {
			return nil
		}
		b, err := os.ReadFile(p)
		if err != nil {
			return err
		}
		if rel == filepath.Join("osfs", "os.go") {
			b = []byte(patched)
		}
		return os.WriteFile(dst, b, 0o644)
	})
	if err != nil {
		return nil, fmt.Errorf("hostFSHook: %w", err)
	}
	if err := os.WriteFile(filepath.Join(copyDir, "osfs", "zz_verif_hostfs.go"), []byte(hook), 0o644); err != nil {
		return nil, err
	}
	gomod, err := os.ReadFile(filepath.Join(repoDir, "go.mod"))
	if err != nil {
		return nil, err
	}
	gm := filepath.Join(work, "go.mod")
	if err := os.WriteFile(gm, append(gomod, []byte("\nreplace github.com/go-git/go-billy/v6 => "+copyDir+"\n")...), 0o644); err != nil {
		return nil, err
	}
	return map[string]string{filepath.Join(repoDir, "go.mod"): gm}, nil
}
