package main

import (
	"fmt"
	"regexp/syntax"
)

type rxKind int

const (
	rxClass rxKind = iota
	rxLiteral
)

type rxPattern struct {
	kind   rxKind
	ranges [][2]byte // ASCII-only class
	lit    string
}

// rxParse accepts constant patterns that are a single ASCII character class
// or a plain literal; anything richer is unsupported by the engine.
func rxParse(expr string) (*rxPattern, error) {
	re, err := syntax.Parse(expr, syntax.Perl)
	if err != nil {
		return nil, err
	}
	re = re.Simplify()
	switch re.Op {
	case syntax.OpCharClass:
		p := &rxPattern{kind: rxClass}
		for i := 0; i+1 < len(re.Rune); i += 2 {
			lo, hi := re.Rune[i], re.Rune[i+1]
			if hi > 0x7f {
				return nil, fmt.Errorf("non-ASCII character class in %q", expr)
			}
			p.ranges = append(p.ranges, [2]byte{byte(lo), byte(hi)})
		}
		return p, nil
	case syntax.OpLiteral:
		if re.Flags&syntax.FoldCase != 0 {
			return nil, fmt.Errorf("case-folding literal in %q", expr)
		}
		return &rxPattern{kind: rxLiteral, lit: string(re.Rune)}, nil
	}
	return nil, fmt.Errorf("pattern too rich: %q", expr)
}
