package main

// io.Pipe stub: an unbounded FIFO. Used together with eagerGo (the producer
// goroutine runs to completion at the go statement), which is sound for a
// producer whose only interaction with its consumer is this pipe.

import (
	"go/types"

	"golang.org/x/tools/go/ssa"
)

type pipeState struct {
	buf     []*Term
	wclosed bool
	werr    value // error the reader sees after the data (io.EOF by default)
	rclosed bool
	rerr    value
}

func (e *Engine) pipeOf(recv value) *pipeState {
	p, ok := recv.(Ptr)
	if !ok || p.p == nil {
		panic(engineError{"io.Pipe: nil receiver"})
	}
	st, ok := e.pipes[p.p]
	if !ok {
		panic(engineError{"io.Pipe: pipe not created through io.Pipe()"})
	}
	return st
}

func pipeSnap(e *Engine, st *pipeState) {
	old := *st
	e.undo = append(e.undo, undoRec{f: func() { *st = old }})
}

func (e *Engine) ioErr(name string) value {
	pkg := e.prog.ImportedPackage("io")
	g := pkg.Members[name].(*ssa.Global)
	return e.loadPtr(nil, nil, e.globalAddr(g))
}

func init() {
	reg("io.Pipe", func(e *Engine, caller *frame, fn *ssa.Function, args []value) value {
		wt := e.pkgType("io", "PipeWriter")
		cell := new(value)
		z := e.zero(wt).(Struct)
		*cell = z
		st := &pipeState{}
		if e.pipes == nil {
			e.pipes = map[*value]*pipeState{}
		}
		e.pipes[cell] = st
		e.pipes[&z[0]] = st
		e.undo = append(e.undo, undoRec{f: func() { delete(e.pipes, cell); delete(e.pipes, &z[0]) }})
		return Tuple{Ptr{p: &z[0]}, Ptr{p: cell}}
	})
	reg("(*io.PipeWriter).Write", func(e *Engine, caller *frame, fn *ssa.Function, args []value) value {
		st := e.pipeOf(args[0])
		pipeSnap(e, st)
		if st.wclosed {
			return Tuple{e.int64c(0), e.ioErr("ErrClosedPipe")}
		}
		if st.rclosed {
			return Tuple{e.int64c(0), st.rerr}
		}
		b := e.bytesOf(args[1])
		st.buf = append(st.buf, b...)
		return Tuple{e.int64c(int64(len(b))), Iface{}}
	})
	closeW := func(e *Engine, st *pipeState, err value) {
		pipeSnap(e, st)
		if st.wclosed {
			return
		}
		st.wclosed = true
		if iv, ok := err.(Iface); ok && iv.t != nil {
			st.werr = iv
		} else {
			st.werr = e.ioErr("EOF")
		}
	}
	reg("(*io.PipeWriter).Close", func(e *Engine, caller *frame, fn *ssa.Function, args []value) value {
		closeW(e, e.pipeOf(args[0]), Iface{})
		return Iface{}
	})
	reg("(*io.PipeWriter).CloseWithError", func(e *Engine, caller *frame, fn *ssa.Function, args []value) value {
		closeW(e, e.pipeOf(args[0]), args[1])
		return Iface{}
	})
	reg("(*io.PipeReader).Read", func(e *Engine, caller *frame, fn *ssa.Function, args []value) value {
		st := e.pipeOf(args[0])
		pipeSnap(e, st)
		p := args[1].([]value)
		if st.rclosed {
			return Tuple{e.int64c(0), e.ioErr("ErrClosedPipe")}
		}
		if len(st.buf) == 0 {
			if st.wclosed {
				return Tuple{e.int64c(0), st.werr}
			}
			panic(engineError{"io.Pipe: read would block (producer has not closed the pipe)"})
		}
		if len(p) == 0 {
			return Tuple{e.int64c(0), Iface{}}
		}
		n := min(len(p), len(st.buf))
		for i := 0; i < n; i++ {
			e.rawStore(&p[i], st.buf[i])
		}
		st.buf = st.buf[n:]
		return Tuple{e.int64c(int64(n)), Iface{}}
	})
	closeR := func(e *Engine, st *pipeState, err value) {
		pipeSnap(e, st)
		st.rclosed = true
		if iv, ok := err.(Iface); ok && iv.t != nil {
			st.rerr = iv
		} else {
			st.rerr = e.ioErr("ErrClosedPipe")
		}
	}
	reg("(*io.PipeReader).Close", func(e *Engine, caller *frame, fn *ssa.Function, args []value) value {
		closeR(e, e.pipeOf(args[0]), Iface{})
		return Iface{}
	})
	reg("(*io.PipeReader).CloseWithError", func(e *Engine, caller *frame, fn *ssa.Function, args []value) value {
		closeR(e, e.pipeOf(args[0]), args[1])
		return Iface{}
	})
	_ = types.Typ
}
