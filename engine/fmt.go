package main

// A small model of fmt's formatting for the verbs go-git uses on data.
// Symbolic integers are rendered by forking on the number of digits.

import (
	"fmt"
	"go/token"
	"go/types"
	"strconv"
	"strings"
)

type fmtSpec struct {
	verb  byte
	zero  bool
	minus bool
	plus  bool
	sharp bool
	space bool
	width int
	prec  int
	hasW  bool
	hasP  bool
}

func (e *Engine) strOfTerms(ts []*Term) Str { return mkStr(ts) }

// formatUint renders v (unsigned, width w) in the given base as a symbolic
// string, forking on the digit count.
func (e *Engine) formatUint(v *Term, base uint64, upper bool) Str {
	c := e.ctx
	if v.IsConst() {
		s := strconv.FormatUint(v.val, int(base))
		if upper {
			s = strings.ToUpper(s)
		}
		return Str{s: s}
	}
	if v.w < 64 {
		v = c.ZExt(v, 64)
	}
	// number of digits k: smallest k with v < base^k
	k := 1
	pow := base
	for {
		// base^k may overflow for k large
		if e.branch(c.Ult(v, c.Const(64, pow)), nil, nil) {
			break
		}
		k++
		hi, lo := mul64(pow, base)
		if hi != 0 {
			break // v >= base^(k-1) and base^k overflows: k digits
		}
		pow = lo
	}
	ts := make([]*Term, k)
	div := uint64(1)
	for i := k - 1; i >= 0; i-- {
		d := c.Bin(OpURem, c.Bin(OpUDiv, v, c.Const(64, div)), c.Const(64, base))
		d8 := c.Extract(d, 7, 0)
		var ch *Term
		if base <= 10 {
			ch = c.Bin(OpAdd, d8, c.Const(8, '0'))
		} else {
			a := byte('a')
			if upper {
				a = 'A'
			}
			ch = c.Ite(c.Ult(d8, c.Const(8, 10)), c.Bin(OpAdd, d8, c.Const(8, '0')), c.Bin(OpAdd, d8, c.Const(8, uint64(a-10))))
		}
		ts[i] = ch
		if i > 0 {
			div *= base
		}
	}
	return mkStr(ts)
}

func mul64(a, b uint64) (hi, lo uint64) {
	const mask32 = 1<<32 - 1
	a0, a1 := a&mask32, a>>32
	b0, b1 := b&mask32, b>>32
	w0 := a0 * b0
	t := a1*b0 + w0>>32
	w1 := t & mask32
	w2 := t >> 32
	w1 += a0 * b1
	hi = a1*b1 + w2 + w1>>32
	lo = a * b
	return
}

func (e *Engine) formatInt(v *Term, signed bool, base uint64, upper bool, plus bool) Str {
	c := e.ctx
	if !signed {
		s := e.formatUint(v, base, upper)
		if plus {
			return e.strConcat(Str{s: "+"}, s)
		}
		return s
	}
	v64 := c.SExt(v, 64)
	if v.w == 64 {
		v64 = v
	}
	neg := c.Slt(v64, c.Const(64, 0))
	if e.branch(neg, nil, nil) {
		return e.strConcat(Str{s: "-"}, e.formatUint(c.Neg(v64), base, upper))
	}
	s := e.formatUint(v64, base, upper)
	if plus {
		return e.strConcat(Str{s: "+"}, s)
	}
	return s
}

func (e *Engine) pad(s Str, sp fmtSpec) Str {
	if !sp.hasW || s.Len() >= sp.width {
		return s
	}
	n := sp.width - s.Len()
	if sp.minus {
		return e.strConcat(s, Str{s: strings.Repeat(" ", n)})
	}
	if sp.zero {
		// keep a leading sign in front
		if s.Len() > 0 {
			f := e.strAt(s, 0)
			if f.IsConst() && (f.val == '-' || f.val == '+') {
				return e.strConcat(e.strConcat(e.strSlice(s, 0, 1), Str{s: strings.Repeat("0", n)}), e.strSlice(s, 1, s.Len()))
			}
		}
		return e.strConcat(Str{s: strings.Repeat("0", n)}, s)
	}
	return e.strConcat(Str{s: strings.Repeat(" ", n)}, s)
}

// toStringVia calls Error() or String() if the dynamic type has it.
func (e *Engine) toStringVia(caller *frame, iv Iface) (Str, bool) {
	if iv.t == nil {
		return Str{}, false
	}
	for _, name := range []string{"Error", "String"} {
		m := e.methodByName(iv.t, name)
		if m != nil && m.Signature.Params().Len() == 0 && m.Signature.Results().Len() == 1 && isString(m.Signature.Results().At(0).Type()) {
			if p, ok := iv.v.(Ptr); ok && p.p == nil {
				return Str{s: "<nil>"}, true
			}
			r := e.callSSA(caller, token.NoPos, m, []value{iv.v}, nil)
			return r.(Str), true
		}
	}
	return Str{}, false
}

func (e *Engine) formatArg(caller *frame, sp fmtSpec, arg value) Str {
	iv, ok := arg.(Iface)
	if !ok {
		panic(engineError{"fmt: non-interface operand"})
	}
	if iv.t == nil {
		if sp.verb == 'v' || sp.verb == 's' {
			return Str{s: "<nil>"}
		}
		return Str{s: "%!" + string(sp.verb) + "(<nil>)"}
	}
	ut := iv.t.Underlying()
	switch sp.verb {
	case 'T':
		return Str{s: iv.t.String()}
	case 'v', 's', 'q':
		if s, ok := e.toStringVia(caller, iv); ok {
			if sp.verb == 'q' {
				return e.quote(s)
			}
			return e.pad(s, sp)
		}
		switch v := iv.v.(type) {
		case Str:
			if sp.verb == 'q' {
				return e.quote(v)
			}
			if sp.hasP && v.Len() > sp.prec {
				v = e.strSlice(v, 0, sp.prec)
			}
			return e.pad(v, sp)
		case *Term:
			if v.w == 0 {
				if sp.verb != 'v' {
					return Str{s: "%!" + string(sp.verb) + "(bool)"}
				}
				if e.branch(v, caller, nil) {
					return e.pad(Str{s: "true"}, sp)
				}
				return e.pad(Str{s: "false"}, sp)
			}
			if sp.verb == 'v' {
				return e.pad(e.formatInt(v, isSigned(iv.t), 10, false, sp.plus), sp)
			}
			return Str{s: "%!" + string(sp.verb) + "(" + iv.t.String() + ")"}
		case []value:
			if sl, ok := ut.(*types.Slice); ok {
				if b, ok := sl.Elem().Underlying().(*types.Basic); ok && b.Kind() == types.Uint8 && sp.verb != 'v' {
					s := mkStr(e.bytesOf(v))
					if sp.verb == 'q' {
						return e.quote(s)
					}
					return e.pad(s, sp)
				}
			}
			// [a b c]
			out := Str{s: "["}
			for i, el := range v {
				if i > 0 {
					out = e.strConcat(out, Str{s: " "})
				}
				et := ut.(*types.Slice).Elem()
				out = e.strConcat(out, e.formatArg(caller, fmtSpec{verb: 'v'}, e.boxFor(et, el)))
			}
			return e.strConcat(out, Str{s: "]"})
		case float64:
			return Str{s: strconv.FormatFloat(v, 'g', -1, 64)}
		case Ptr:
			return Str{s: "0xc000000000"}
		}
		return Str{s: "<" + iv.t.String() + ">"}
	case 'd':
		if v, ok := iv.v.(*Term); ok && v.w > 0 {
			return e.pad(e.formatInt(v, isSigned(iv.t), 10, false, sp.plus), sp)
		}
	case 'o':
		if v, ok := iv.v.(*Term); ok && v.w > 0 {
			return e.pad(e.formatInt(v, isSigned(iv.t), 8, false, sp.plus), sp)
		}
	case 'b':
		if v, ok := iv.v.(*Term); ok && v.w > 0 {
			return e.pad(e.formatInt(v, isSigned(iv.t), 2, false, sp.plus), sp)
		}
	case 'x', 'X':
		switch v := iv.v.(type) {
		case *Term:
			if v.w > 0 {
				s := e.formatInt(v, isSigned(iv.t), 16, sp.verb == 'X', sp.plus)
				if sp.sharp {
					s = e.strConcat(Str{s: "0x"}, s)
				}
				return e.pad(s, sp)
			}
		case Str:
			return e.pad(e.hexOf(e.strTerms(v), sp.verb == 'X'), sp)
		case []value:
			return e.pad(e.hexOf(e.bytesOf(v), sp.verb == 'X'), sp)
		case Array:
			ts := make([]*Term, len(v))
			for i := range v {
				ts[i] = v[i].(*Term)
			}
			return e.pad(e.hexOf(ts, sp.verb == 'X'), sp)
		}
		if s, ok := e.toStringVia(caller, iv); ok {
			return e.pad(e.hexOf(e.strTerms(s), sp.verb == 'X'), sp)
		}
	case 'c':
		if v, ok := iv.v.(*Term); ok && v.w > 0 {
			return e.pad(e.runeToString(caller, v, isSigned(iv.t)), sp)
		}
	case 'p':
		return Str{s: "0xc000000000"}
	case 'w':
		if s, ok := e.toStringVia(caller, iv); ok {
			return s
		}
	}
	panic(engineError{fmt.Sprintf("fmt: unsupported verb %%%c for %s", sp.verb, iv.t)})
}

func (e *Engine) boxFor(t types.Type, v value) value {
	if _, ok := t.Underlying().(*types.Interface); ok {
		return v
	}
	return Iface{t: t, v: v}
}

func (e *Engine) hexOf(ts []*Term, upper bool) Str {
	c := e.ctx
	out := make([]*Term, 0, 2*len(ts))
	a := uint64('a' - 10)
	if upper {
		a = 'A' - 10
	}
	nib := func(n *Term) *Term {
		return c.Ite(c.Ult(n, c.Const(8, 10)), c.Bin(OpAdd, n, c.Const(8, '0')), c.Bin(OpAdd, n, c.Const(8, a)))
	}
	for _, b := range ts {
		out = append(out, nib(c.Bin(OpLShr, b, c.Const(8, 4))), nib(c.Bin(OpBAnd, b, c.Const(8, 15))))
	}
	return mkStr(out)
}

// quote models %q only for concrete strings; symbolic content is left
// unescaped between quotes (only used in error texts).
func (e *Engine) quote(s Str) Str {
	if s.IsConc() {
		return Str{s: strconv.Quote(s.s)}
	}
	return e.strConcat(e.strConcat(Str{s: "\""}, s), Str{s: "\""})
}

// sprintf formats; if wrapped != nil it receives the operands of %w verbs.
func (e *Engine) sprintf(caller *frame, format Str, args []value, wrapped *[]Iface) Str {
	if !format.IsConc() {
		panic(engineError{"fmt: symbolic format string"})
	}
	f := format.s
	var out Str
	argi := 0
	lit := 0
	for i := 0; i < len(f); {
		if f[i] != '%' {
			i++
			continue
		}
		out = e.strConcat(out, Str{s: f[lit:i]})
		i++
		if i >= len(f) {
			out = e.strConcat(out, Str{s: "%!(NOVERB)"})
			lit = i
			break
		}
		var sp fmtSpec
	flags:
		for i < len(f) {
			switch f[i] {
			case '0':
				sp.zero = true
			case '-':
				sp.minus = true
			case '+':
				sp.plus = true
			case '#':
				sp.sharp = true
			case ' ':
				sp.space = true
			default:
				break flags
			}
			i++
		}
		for i < len(f) && f[i] >= '0' && f[i] <= '9' {
			sp.width = sp.width*10 + int(f[i]-'0')
			sp.hasW = true
			i++
		}
		if i < len(f) && f[i] == '*' {
			panic(engineError{"fmt: * width unsupported"})
		}
		if i < len(f) && f[i] == '.' {
			i++
			sp.hasP = true
			for i < len(f) && f[i] >= '0' && f[i] <= '9' {
				sp.prec = sp.prec*10 + int(f[i]-'0')
				i++
			}
		}
		if i >= len(f) {
			out = e.strConcat(out, Str{s: "%!(NOVERB)"})
			lit = i
			break
		}
		sp.verb = f[i]
		i++
		lit = i
		if sp.verb == '%' {
			out = e.strConcat(out, Str{s: "%"})
			continue
		}
		if argi >= len(args) {
			out = e.strConcat(out, Str{s: "%!" + string(sp.verb) + "(MISSING)"})
			continue
		}
		arg := args[argi]
		argi++
		if sp.verb == 'w' && wrapped != nil {
			if iv, ok := arg.(Iface); ok {
				*wrapped = append(*wrapped, iv)
			}
		}
		out = e.strConcat(out, e.formatArg(caller, sp, arg))
	}
	out = e.strConcat(out, Str{s: f[lit:]})
	return out
}

func (e *Engine) sprint(caller *frame, args []value, ln bool) Str {
	var out Str
	for i, a := range args {
		if i > 0 && ln {
			out = e.strConcat(out, Str{s: " "})
		} else if i > 0 {
			// Sprint adds spaces between operands when neither is a string
			_, s1 := args[i-1].(Iface).v.(Str)
			_, s2 := a.(Iface).v.(Str)
			if !s1 && !s2 {
				out = e.strConcat(out, Str{s: " "})
			}
		}
		out = e.strConcat(out, e.formatArg(caller, fmtSpec{verb: 'v'}, a))
	}
	if ln {
		out = e.strConcat(out, Str{s: "\n"})
	}
	return out
}

// fmtErrorf builds a real *fmt.wrapError / *fmt.wrapErrors / *errors.errorString
// value so that Error(), Unwrap() and errors.Is work through the real methods.
func (e *Engine) fmtErrorf(caller *frame, format Str, args []value) value {
	var wrapped []Iface
	var msg Str
	func() {
		defer func() {
			if r := recover(); r != nil {
				if ee, ok := r.(engineError); ok && strings.HasPrefix(ee.msg, "fmt:") {
					// error texts are not the subject: keep an opaque message
					msg = Str{s: "<unformatted: " + format.s + ">"}
					// still collect %w operands
					wrapped = wrapped[:0]
					ai := 0
					f := format.s
					for i := 0; i+1 < len(f); i++ {
						if f[i] == '%' {
							j := i + 1
							for j < len(f) && strings.IndexByte("+-# 0123456789.", f[j]) >= 0 {
								j++
							}
							if j < len(f) {
								if f[j] == '%' {
									i = j
									continue
								}
								if f[j] == 'w' && ai < len(args) {
									if iv, ok := args[ai].(Iface); ok {
										wrapped = append(wrapped, iv)
									}
								}
								ai++
								i = j
							}
						}
					}
					return
				}
				panic(r)
			}
		}()
		msg = e.sprintf(caller, format, args, &wrapped)
	}()
	errT := types.Universe.Lookup("error").Type()
	switch len(wrapped) {
	case 0:
		t := e.pkgType("errors", "errorString")
		cell := new(value)
		*cell = Struct{msg}
		return Iface{t: types.NewPointer(t), v: Ptr{p: cell}}
	case 1:
		t := e.pkgType("fmt", "wrapError")
		cell := new(value)
		w := wrapped[0]
		if w.t != nil && !e.implements(w.t, errT.Underlying().(*types.Interface)) {
			w = Iface{}
		}
		*cell = Struct{msg, w}
		return Iface{t: types.NewPointer(t), v: Ptr{p: cell}}
	default:
		t := e.pkgType("fmt", "wrapErrors")
		cell := new(value)
		errs := make([]value, len(wrapped))
		for i, w := range wrapped {
			errs[i] = w
		}
		*cell = Struct{msg, errs}
		return Iface{t: types.NewPointer(t), v: Ptr{p: cell}}
	}
}

func (e *Engine) pkgType(pkg, name string) types.Type {
	p := e.prog.ImportedPackage(pkg)
	if p == nil {
		panic(engineError{"package not loaded: " + pkg})
	}
	t := p.Type(name)
	if t == nil {
		panic(engineError{"type not found: " + pkg + "." + name})
	}
	return t.Type()
}
