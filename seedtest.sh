#!/bin/sh
# ./seedtest.sh <seed-dir-with-patch.diff> <property> [tier] [extra symgo flags]
# Runs a property's check against a scratch copy of /repo with the seeded change
# applied (SYMGO_REPO), writing evidence/replays under a scratch output dir so the
# committed evidence is not disturbed. Prints the check's exit status.
set -e
seed=$(cd "$1" && pwd); prop=$2; tier=${3:-quick}; shift; shift; [ $# -gt 0 ] && shift
wt=$(mktemp -d /tmp/seedwt.XXXXXX); out=$(mktemp -d /tmp/seedout.XXXXXX)
rmdir "$wt"
git -C /repo worktree add --detach "$wt" HEAD -q
trap 'git -C /repo worktree remove --force "$wt" >/dev/null 2>&1; rm -rf "$out"' EXIT
git -C "$wt" apply "$seed/patch.diff"
set +e
SYMGO_REPO="$wt" SYMGO_OUT="$out" "$(dirname "$0")/check" "$prop" "$tier" "$@"
rc=$?
echo "seedtest: property=$prop tier=$tier seed=$seed exit=$rc"
exit $rc
